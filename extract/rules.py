"""Generic, semantics-preserving rewrite rules (DESIGN.md section 4).

Each rule returns (new_text, number_of_sites_rewritten).  A rule only fires
where its syntactic side conditions hold.
"""
import re

from . import rsx


def r1_enumerate(text):
    """for (i, x) in E.enumerate() { B }  =>  let mut i: usize = 0; for x in E { B  i += 1; }
    side conditions: B contains no `continue`; E ends in .iter()/.into_iter()/.iter_mut().
    Tuple-pattern loops that do not end in .enumerate() (e.g. over a map) are left alone."""
    n = 0
    skip = 0
    while True:
        m = rsx.mask(text)
        mm = re.compile(r'\bfor\s*\(\s*(\w+)\s*,\s*(\w+)\s*\)\s+in\s+').search(m, skip)
        if not mm:
            return text, n
        # find loop body brace
        depth = 0
        ob = None
        for j in range(mm.end(), len(m)):
            ch = m[j]
            if ch in '([':
                depth += 1
            elif ch in ')]':
                depth -= 1
            elif ch == '{' and depth == 0:
                ob = j
                break
        expr = text[mm.end():ob].strip()
        if not expr.endswith('.enumerate()'):
            skip = mm.end()
            continue
        inner = expr[:-len('.enumerate()')]
        if not re.search(r'\.(iter|into_iter|iter_mut)\(\)$', inner):
            raise rsx.AnchorError('R1: unsupported enumerate source %r' % inner)
        cb = rsx.match_close(m, ob)
        body_m = m[ob:cb]
        if re.search(r'\bcontinue\b', body_m):
            raise rsx.AnchorError('R1: loop body contains continue')
        i, x = mm.group(1), mm.group(2)
        text = (text[:mm.start()] + 'let mut %s: usize = 0;\n' % i + 'for %s in %s ' % (x, inner) +
                text[ob:cb] + '\n%s += 1;\n' % i + text[cb:])
        n += 1
        skip = 0


def r9_const_array_for(text):
    """for x in ARR { B }  (ARR an ALL_CAPS constant array of a Copy type)
       => let mut __k_x: usize = 0; while __k_x < ARR.len() { let x = ARR[__k_x]; __k_x += 1; B }"""
    n = 0
    while True:
        m = rsx.mask(text)
        mm = re.search(r'\bfor\s+(\w+)\s+in\s+([A-Z][A-Z0-9_]*)\s*\{', m)
        if not mm:
            return text, n
        x, arr = mm.group(1), mm.group(2)
        k = '__k_' + x
        text = (text[:mm.start()] + 'let mut %s: usize = 0;\nwhile %s < %s.len() {\nlet %s = %s[%s];\n%s += 1;\n' %
                (k, k, arr, x, arr, k, k) + text[mm.end():])
        n += 1


def r2_f32_mul_assign(text):
    """a *= b;  =>  a = f32_mul(a, b);   (R2 + R10: f32 product routed through an uninterpreted function)"""
    m = rsx.mask(text)
    out, last, n = [], 0, 0
    for mm in re.finditer(r'\b(\w+)\s*\*=\s*([^;]+);', m):
        out.append(text[last:mm.start()])
        out.append('%s = f32_mul(%s, %s);' % (mm.group(1), mm.group(1), text[mm.start(2):mm.end(2)].strip()))
        last = mm.end()
        n += 1
    out.append(text[last:])
    return ''.join(out), n


def r6_debug_assert(text):
    """debug_assert!(E);  =>  assert(E);"""
    m = rsx.mask(text)
    out, last, n = [], 0, 0
    for mm in re.finditer(r'\bdebug_assert!\s*\(', m):
        cp = rsx.match_close(m, mm.end() - 1, '(', ')')
        out.append(text[last:mm.start()])
        out.append('assert(' + text[mm.end():cp] + ')')
        last = cp + 1
        n += 1
    out.append(text[last:])
    return ''.join(out), n


def r4_is_some_and(text):
    """X.is_some_and(|p| E)  =>  (match X { Some(p) => E, None => false })   [X a simple call chain]"""
    n = 0
    while True:
        m = rsx.mask(text)
        mm = re.search(r'\.is_some_and\(\s*\|(\w+)\|\s*', m)
        if not mm:
            return text, n
        cp = rsx.match_close(m, m.find('(', mm.start()), '(', ')')
        body = text[mm.end():cp].strip()
        # receiver: scan backwards over a postfix chain  ident(.ident(args))*
        j = mm.start()
        depth = 0
        k = j - 1
        while k >= 0:
            ch = m[k]
            if ch in ')]':
                depth += 1
            elif ch in '([':
                if depth == 0:
                    break
                depth -= 1
            elif depth == 0 and not (ch.isalnum() or ch in '_.&*'):
                break
            k -= 1
        recv = text[k + 1:j].strip()
        text = text[:k + 1] + ' (match %s { Some(%s) => %s, None => false })' % (recv, mm.group(1), body) + text[cp + 1:]
        n += 1


RULES = {
    'R1': r1_enumerate,
    'R2': r2_f32_mul_assign,
    'R4': r4_is_some_and,
    'R6': r6_debug_assert,
    'R9': r9_const_array_for,
}


def apply(rule, text):
    return RULES[rule](text)


def r11_into(text):
    """let X: T = E.into();  =>  let X: T = T::from(E);   (std blanket impl<T, U: From<T>> Into<U> for T)"""
    m = rsx.mask(text)
    n = 0
    out, last = [], 0
    for mm in re.finditer(r'\blet\s+(\w+)\s*:\s*(\w+)\s*=\s*', m):
        # expression runs to the `;` at depth 0
        depth = 0
        end = None
        for j in range(mm.end(), len(m)):
            ch = m[j]
            if ch in '([{':
                depth += 1
            elif ch in ')]}':
                depth -= 1
            elif ch == ';' and depth == 0:
                end = j
                break
        if end is None:
            continue
        expr = text[mm.end():end]
        if not expr.rstrip().endswith('.into()'):
            continue
        inner = expr.rstrip()[:-len('.into()')].rstrip()
        out.append(text[last:mm.end()])
        out.append('%s::from(%s)' % (mm.group(2), inner))
        last = end
        n += 1
    out.append(text[last:])
    return ''.join(out), n


RULES['R11'] = r11_into


def r13_return_vec(text):
    """fn into_iter(self) -> Self::IntoIter { ... E.into_iter() ... }  where every tail/arm value ends in
    `.into_iter()` on a Vec  =>  the function returns the Vec itself (`-> Vec<Item>`): the trailing
    `.into_iter()` calls that are in tail position (directly before `,` `}` of a match arm or the end of the
    body) are dropped.  std: Vec::into_iter yields the elements in order.
    The new return type is given by the caller through a @sub on the signature."""
    m = rsx.mask(text)
    out, last, n = [], 0, 0
    for mm in re.finditer(r'\.\s*into_iter\(\)(?=\s*(,|\}|$))', m):
        out.append(text[last:mm.start()])
        last = mm.end()
        n += 1
    out.append(text[last:])
    return ''.join(out), n


def r5_flat_map(text):
    """E1.into_iter().flat_map(|r| { E2.into_iter().map(|cp| (cp, P)) }).collect::<Vec<T>>()
         =>  { let mut __v: Vec<T> = Vec::new(); for r in E1.into_iter() { for cp in E2.into_iter() { __v.push((cp, P)); } } __v }
       E2.into_iter().map(|cp| (cp, P)).collect::<Vec<T>>()
         =>  { let mut __v: Vec<T> = Vec::new(); for cp in E2.into_iter() { __v.push((cp, P)); } __v }
       std::iter::once(X).collect::<Vec<T>>()  =>  vec![X]
    (std semantics of flat_map/map/collect/once: elements in iteration order)."""
    n = 0
    ws = r'\s*'
    pat_fm = re.compile(
        r'(?P<e1>[A-Za-z_][\w:]*\((?:[^()]|\([^()]*\))*\))' + ws + r'\.' + ws + r'into_iter\(\)' + ws + r'\.' + ws +
        r'flat_map\(\|(?P<r>\w+)\|' + ws + r'\{' + ws +
        r'(?P<e2>[A-Za-z_][\w:]*\((?:[^()]|\([^()]*\))*\))' + ws + r'\.' + ws + r'into_iter\(\)' + ws + r'\.' + ws +
        r'map\(\|(?P<cp>\w+)\|' + ws + r'\((?P=cp),' + ws + r'(?P<p>[\w.]+)\)\)' + ws + r'\}\)' + ws + r'\.' + ws +
        r'collect::<Vec<(?P<t>\((?:[^()]|\([^()]*\))*\))>>\(\)', re.S)
    while True:
        mm = pat_fm.search(text)
        if not mm:
            break
        rep = ('{ let mut __v: Vec<%s> = Vec::new(); for %s in %s.into_iter() { for %s in %s.into_iter() { __v.push((%s, %s)); } } __v }' %
               (mm.group('t'), mm.group('r'), mm.group('e1'), mm.group('cp'), mm.group('e2'), mm.group('cp'), mm.group('p')))
        text = text[:mm.start()] + rep + text[mm.end():]
        n += 1
    pat_m = re.compile(
        r'(?P<e2>\b[a-z_]\w*)' + ws + r'\.' + ws + r'into_iter\(\)' + ws + r'\.' + ws +
        r'map\(\|(?P<cp>\w+)\|' + ws + r'\((?P=cp),' + ws + r'(?P<p>[\w.]+)\)\)' + ws + r'\.' + ws +
        r'collect::<Vec<(?P<t>\((?:[^()]|\([^()]*\))*\))>>\(\)', re.S)
    while True:
        mm = pat_m.search(text)
        if not mm:
            break
        rep = ('{ let mut __v: Vec<%s> = Vec::new(); for %s in %s.into_iter() { __v.push((%s, %s)); } __v }' %
               (mm.group('t'), mm.group('cp'), mm.group('e2'), mm.group('cp'), mm.group('p')))
        text = text[:mm.start()] + rep + text[mm.end():]
        n += 1
    pat_o = re.compile(r'std::iter::once\((?P<x>\((?:[^()]|\([^()]*\))*\))\)' + ws + r'\.' + ws + r'collect::<Vec<(?P<t>\((?:[^()]|\([^()]*\))*\))>>\(\)', re.S)
    while True:
        mm = pat_o.search(text)
        if not mm:
            break
        text = text[:mm.start()] + 'vec![%s]' % mm.group('x') + text[mm.end():]
        n += 1
    return text, n


RULES['R13'] = r13_return_vec
RULES['R5'] = r5_flat_map


def r14_all(text):
    """X.into_iter().all(|v| E)  =>  { let mut __all = true; for v in X.into_iter() { if !(E) { __all = false; break; } } __all }
    (Iterator::all short-circuits at the first false; E is side-effect free: map lookups and comparisons)."""
    n = 0
    while True:
        m = rsx.mask(text)
        mm = re.search(r'(\b[a-z_]\w*)\s*\.\s*into_iter\(\)\s*\.\s*all\(\s*\|(\w+)\|\s*', m)
        if not mm:
            return text, n
        op = m.rfind('(', 0, mm.end())
        cp = rsx.match_close(m, op, '(', ')')
        body = text[mm.end():cp].strip()
        rep = '{ let mut __all = true; for %s in %s.into_iter() { if !(%s) { __all = false; break; } } __all }' % (mm.group(2), mm.group(1), body)
        text = text[:mm.start()] + rep + text[cp + 1:]
        n += 1


RULES['R14'] = r14_all


def r18_filter_all(text):
    """X.iter().filter(|c| P).all(|c| Q)  =>  { let mut __all = true; for c in X.iter() { if P { if !(Q) { __all = false; break; } } } __all }
    (same closure variable in both closures; P, Q side-effect free)."""
    n = 0
    while True:
        m = rsx.mask(text)
        mm = re.search(r'((?:\w+\s*\.\s*)*\w+)\s*\.\s*iter\(\)\s*\.\s*filter\(\s*\|(\w+)\|\s*', m)
        if not mm:
            return text, n
        op = m.rfind('(', 0, mm.end())
        cp = rsx.match_close(m, op, '(', ')')
        pbody = text[mm.end():cp].strip()
        m2 = re.match(r'\s*\.\s*all\(\s*\|(\w+)\|\s*', m[cp + 1:])
        if not m2 or m2.group(1) != mm.group(2):
            raise rsx.AnchorError('R18: filter not followed by all with the same variable')
        op2 = cp + 1 + m[cp + 1:].index('(', m2.start())
        cp2 = rsx.match_close(m, op2, '(', ')')
        qbody = text[cp + 1 + m2.end():cp2].strip()
        rep = '{ let mut __all = true; for %s in %s.iter() { if %s { if !(%s) { __all = false; break; } } } __all }' % (mm.group(2), re.sub(r'\s+', '', mm.group(1)), pbody, qbody)
        text = text[:mm.start()] + rep + text[cp2 + 1:]
        n += 1


RULES['R18'] = r18_filter_all
