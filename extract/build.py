import sys
from .unit import UnitBuilder
b = UnitBuilder(sys.argv[3] if len(sys.argv) > 3 else '/repo')
open(sys.argv[2], 'w').write(b.build(sys.argv[1]))
print('items', len(b.items), 'clauses', b.clauses, 'contracted', len(b.contracted))
