"""Regex literal -> DFA (Rust source) for the Kani TOKEN unit.

`regex::Regex` is out of reach for CBMC, so every `Regex::new(r"...")` call site found in the CURRENT
source is replaced, in the scratch copy only, by a table-driven DFA generated here from that very
literal.  Supported subset (anything else => AnchorError => exit 2): ASCII literals, escapes of
punctuation, character classes without negation, groups, `?`, `+`, `*`, `{n}`, `{n,m}`, `^` at the
start and `$` at the end (full match).  Parsed with Python's own regex parser (re._parser).
"""
import re
try:
    import re._parser as sre_parse
    import re._constants as sre_c
except ImportError:  # older pythons
    import sre_parse
    import sre_constants as sre_c

from .rsx import AnchorError


class NFA:
    def __init__(self):
        self.eps = {}     # state -> set(states)
        self.trans = {}   # state -> list((frozenset(bytes), state))
        self.n = 0

    def new(self):
        s = self.n
        self.n += 1
        self.eps[s] = set()
        self.trans[s] = []
        return s


def _charset(items):
    out = set()
    for op, av in items:
        if op == sre_c.LITERAL:
            out.add(av)
        elif op == sre_c.RANGE:
            out.update(range(av[0], av[1] + 1))
        elif op == sre_c.NEGATE:
            raise AnchorError('negated class not supported')
        else:
            raise AnchorError('class item %s not supported' % op)
    if any(c > 127 for c in out):
        raise AnchorError('non-ASCII class')
    return frozenset(out)


def _build(nfa, nodes, start):
    """returns end state of the fragment for the node sequence starting at `start`"""
    cur = start
    for op, av in nodes:
        if op == sre_c.LITERAL:
            if av > 127:
                raise AnchorError('non-ASCII literal')
            nxt = nfa.new()
            nfa.trans[cur].append((frozenset([av]), nxt))
            cur = nxt
        elif op == sre_c.IN:
            nxt = nfa.new()
            nfa.trans[cur].append((_charset(av), nxt))
            cur = nxt
        elif op == sre_c.SUBPATTERN:
            cur = _build(nfa, av[3], cur)
        elif op in (sre_c.MAX_REPEAT, sre_c.MIN_REPEAT):
            lo, hi, sub = av
            for _ in range(lo):
                cur = _build(nfa, sub, cur)
            if hi == sre_c.MAXREPEAT:
                # star
                loop_in = nfa.new()
                nfa.eps[cur].add(loop_in)
                end = _build(nfa, sub, loop_in)
                nfa.eps[end].add(loop_in)
                out = nfa.new()
                nfa.eps[loop_in].add(out)
                cur = out
            else:
                out = nfa.new()
                for _ in range(hi - lo):
                    nfa.eps[cur].add(out)
                    cur = _build(nfa, sub, cur)
                nfa.eps[cur].add(out)
                cur = out
        elif op == sre_c.BRANCH:
            out = nfa.new()
            for alt in av[1]:
                s = nfa.new()
                nfa.eps[cur].add(s)
                e = _build(nfa, alt, s)
                nfa.eps[e].add(out)
            cur = out
        elif op == sre_c.AT:
            raise AnchorError('anchor inside pattern not supported')
        else:
            raise AnchorError('regex construct %s not supported' % op)
    return cur


def compile_dfa(pattern):
    if not (pattern.startswith('^') and pattern.endswith('$')):
        raise AnchorError('pattern must be anchored ^...$: ' + pattern)
    tree = list(sre_parse.parse(pattern[1:-1]))
    nfa = NFA()
    s0 = nfa.new()
    end = _build(nfa, tree, s0)

    def closure(states):
        stack, seen = list(states), set(states)
        while stack:
            s = stack.pop()
            for t in nfa.eps[s]:
                if t not in seen:
                    seen.add(t)
                    stack.append(t)
        return frozenset(seen)

    # byte classes: partition 0..127 by the transition sets
    sets = set()
    for s in range(nfa.n):
        for cs, _ in nfa.trans[s]:
            sets.add(cs)
    sig = {}
    for b in range(128):
        sig[b] = tuple(sorted(id_ for id_, cs in enumerate(sorted(sets, key=sorted)) if b in cs))
    classes = {}
    for b in range(128):
        classes.setdefault(sig[b], []).append(b)
    class_list = [v for k, v in sorted(classes.items(), key=lambda kv: kv[1][0]) if k != ()]
    # class 0 = "other" (dead)
    start = closure([s0])
    states = {start: 1}   # 0 = dead state
    order = [start]
    table = {}
    i = 0
    while i < len(order):
        S = order[i]
        i += 1
        row = [0]
        for cl in class_list:
            b = cl[0]
            tgt = set()
            for s in S:
                for cs, t in nfa.trans[s]:
                    if b in cs:
                        tgt.add(t)
            T = closure(tgt) if tgt else None
            if T is None:
                row.append(0)
            else:
                if T not in states:
                    states[T] = len(states) + 1
                    order.append(T)
                row.append(states[T])
        table[states[S]] = row
    accepting = sorted(states[S] for S in order if end in S)
    nstates = len(states) + 1
    trans = [[0] * (len(class_list) + 1) for _ in range(nstates)]
    for sid, row in table.items():
        trans[sid] = row
    byte_class = [0] * 128
    for ci, cl in enumerate(class_list, 1):
        for b in cl:
            byte_class[b] = ci
    return {'trans': trans, 'accepting': accepting, 'byte_class': byte_class, 'nclass': len(class_list) + 1}


def py_match(d, data):
    s = 1
    for b in data:
        if b > 127:
            return False
        s = d['trans'][s][d['byte_class'][b]]
        if s == 0:
            return False
    return s in d['accepting']


def _byte_pat(bs):
    """Rust match pattern for a set of bytes, as ranges"""
    bs = sorted(bs)
    parts = []
    i = 0
    while i < len(bs):
        j = i
        while j + 1 < len(bs) and bs[j + 1] == bs[j] + 1:
            j += 1
        parts.append('%d' % bs[i] if i == j else '%d..=%d' % (bs[i], bs[j]))
        i = j + 1
    return ' | '.join(parts)


def emit_rust(dfas):
    """DFAs as nested `match` (comparison chains are far cheaper for CBMC than table lookups)."""
    out = ['//! GENERATED by /verif/extract/dfa.py from the regex literals of the current source.',
           '#[derive(Clone, Copy)]', 'pub struct VerifDfa(pub usize);',
           'impl VerifDfa {',
           '    pub fn new(k: usize) -> VerifDfa { VerifDfa(k) }',
           '    pub fn unwrap(self) -> VerifDfa { self }',
           '    pub fn is_match(&self, s: &str) -> bool {',
           '        let b = s.as_bytes();',
           '        let mut st: u8 = 1;',
           '        let mut i = 0;',
           '        while i < b.len() {',
           '            st = match self.0 {']
    for k in range(len(dfas)):
        out.append('                %d => step_%d(st, b[i]),' % (k, k))
    out += ['                _ => 0,', '            };',
            '            if st == 0 { return false; }',
            '            i += 1;',
            '        }',
            '        match self.0 {']
    for k, d in enumerate(dfas):
        out.append('            %d => matches!(st, %s),' % (k, ' | '.join(str(a) for a in d['accepting']) or '255'))
    out += ['            _ => false,', '        }', '    }', '}']
    for k, d in enumerate(dfas):
        out.append('fn step_%d(st: u8, byte: u8) -> u8 {' % k)
        out.append('    match st {')
        for sid, row in enumerate(d['trans']):
            if sid == 0 or not any(row):
                continue
            arms = {}
            for b in range(128):
                t = row[d['byte_class'][b]]
                if t:
                    arms.setdefault(t, []).append(b)
            out.append('        %d => match byte { %s _ => 0 },' % (sid, ' '.join('%s => %d,' % (_byte_pat(bs), t) for t, bs in sorted(arms.items()))))
        out += ['        _ => 0,', '    }', '}']
    return '\n'.join(out) + '\n'


REGEX_CALL = re.compile(r'Regex::new\(\s*r"([^"]*)"\s*,?\s*\)')


def rewrite_source(text):
    """replace the k-th Regex::new(r"...") by VerifDfa::new(k); returns (new_text, patterns)"""
    pats = []

    def rep(m):
        pats.append(m.group(1))
        return 'crate::verif_dfa::VerifDfa::new(%d)' % (len(pats) - 1)
    new = REGEX_CALL.sub(rep, text)
    new = re.sub(r'^use regex::Regex;\n', '', new, flags=re.M)
    if 'Regex' in re.sub(r'//.*', '', new).replace('VerifDfa', ''):
        raise AnchorError('Regex used in a way the DFA rewrite does not cover')
    return new, pats


def selftest(pats):
    """cross-check the generated DFAs against Python's re on all short strings over the token alphabet"""
    import itertools
    alpha = [ord(c) for c in 'AKT92shdco+-:.015'] + [0xC3]
    n = 0
    for p in pats:
        d = compile_dfa(p)
        rx = re.compile(p.replace('$', r'\Z').encode())
        for L in range(0, 5):
            for tup in itertools.product(alpha, repeat=L):
                data = bytes(tup)
                n += 1
                if py_match(d, data) != bool(rx.match(data)):
                    raise AssertionError('DFA/regex disagree on %r for %s' % (data, p))
    return n


if __name__ == '__main__':
    import sys
    src = open(sys.argv[1]).read()
    new, pats = rewrite_source(src)
    print(len(pats), 'patterns')
    for p in pats:
        d = compile_dfa(p)
        print(p, 'states', len(d['trans']), 'classes', d['nclass'])
    print('selftest cases', selftest(pats))
