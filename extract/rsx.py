"""Mechanical extraction of Rust items from /repo and contract splicing.

No third-party modules.  The extracted text is the token sequence of the real
item, located by header pattern and brace matching on a *masked* copy of the
source (comments, string and char literals blanked), with only the documented
drops/rewrites applied (DESIGN.md section 4).

Errors:
  AnchorError  -- an item, loop, or text anchor named by a contract no longer
                  exists / no longer matches its fingerprint (=> exit 2,
                  undecided; never an alarm).
"""
import hashlib
import re


class AnchorError(Exception):
    pass


def mask(src):
    """Return a string of the same length with comments, string literals and
    char literals replaced by spaces (newlines kept)."""
    out = list(src)
    i, n = 0, len(src)

    def blank(a, b):
        for k in range(a, b):
            if out[k] != '\n':
                out[k] = ' '

    while i < n:
        c = src[i]
        if src.startswith('//', i):
            j = src.find('\n', i)
            j = n if j < 0 else j
            blank(i, j)
            i = j
        elif src.startswith('/*', i):
            depth, j = 1, i + 2
            while j < n and depth:
                if src.startswith('/*', j):
                    depth += 1
                    j += 2
                elif src.startswith('*/', j):
                    depth -= 1
                    j += 2
                else:
                    j += 1
            blank(i, j)
            i = j
        elif c == '"' or (c == 'r' and re.match(r'r#*"', src[i:i + 8]) and
                          (i == 0 or not (src[i - 1].isalnum() or src[i - 1] == '_'))) \
                or (c == 'b' and src.startswith('b"', i)):
            if c == 'r':
                m = re.match(r'r(#*)"', src[i:])
                close = '"' + m.group(1)
                j = src.find(close, i + len(m.group(0)))
                j = n if j < 0 else j + len(close)
                blank(i + len(m.group(0)), j - len(close))
                i = j
            else:
                j = i + (2 if c == 'b' else 1)
                start = j
                while j < n and src[j] != '"':
                    j += 2 if src[j] == '\\' else 1
                blank(start, j)
                i = j + 1
        elif c == "'":
            # char literal or lifetime
            if i + 1 < n and src[i + 1] == '\\':
                j = src.find("'", i + 2)
                blank(i + 1, j)
                i = j + 1
            elif i + 2 < n and src[i + 2] == "'":
                blank(i + 1, i + 2)
                i += 3
            else:
                i += 1
        else:
            i += 1
    return ''.join(out)


def match_close(m, i, open_ch='{', close_ch='}'):
    """m: masked text, i: index of an opening bracket. Return index of its match."""
    assert m[i] == open_ch, (m[i], open_ch)
    depth = 0
    for j in range(i, len(m)):
        if m[j] == open_ch:
            depth += 1
        elif m[j] == close_ch:
            depth -= 1
            if depth == 0:
                return j
    raise AnchorError('unbalanced %s at %d' % (open_ch, i))


def norm(s):
    """whitespace-insensitive text, for locating anchors"""
    return re.sub(r'\s+', '', s)


def norm_fp(s):
    """fingerprint text: whitespace-insensitive OUTSIDE string / char literals (a blank inside "..." is behaviour)"""
    out = []
    i, n = 0, len(s)
    while i < n:
        c = s[i]
        if c == '"' or (c == 'r' and re.match(r'r#*"', s[i:]) and (i == 0 or not (s[i - 1].isalnum() or s[i - 1] == '_'))):
            if c == 'r':
                m = re.match(r'r(#*)"', s[i:])
                close = '"' + m.group(1)
                j = s.find(close, i + len(m.group(0)))
                j = n if j < 0 else j + len(close)
            else:
                j = i + 1
                while j < n and s[j] != '"':
                    j += 2 if s[j] == '\\' else 1
                j = min(n, j + 1)
            out.append(s[i:j])
            i = j
        elif c == "'" and re.match(r"'(\\.|[^\\'])'", s[i:]):
            m = re.match(r"'(\\.|[^\\'])'", s[i:])
            out.append(m.group(0))
            i += len(m.group(0))
        elif c == '/' and s[i:i + 2] == '//':
            j = s.find('\n', i)          # a comment is not behaviour
            i = n if j < 0 else j
        elif c == '/' and s[i:i + 2] == '/*':
            j = s.find('*/', i + 2)
            i = n if j < 0 else j + 2
        elif c.isspace():
            i += 1
        else:
            out.append(c)
            i += 1
    return ''.join(out)


def strip_test_modules(src):
    """D1: remove `#[cfg(test)] mod NAME { ... }` modules."""
    while True:
        m = mask(src)
        mm = re.search(r'#\[cfg\(test\)\]\s*mod\s+\w+\s*\{', m)
        if not mm:
            return src
        end = match_close(m, mm.end() - 1)
        src = src[:mm.start()] + src[end + 1:]


class Source:
    def __init__(self, path, text=None):
        self.path = path
        raw = open(path).read() if text is None else text
        self.text = strip_test_modules(raw)
        self.m = mask(self.text)

    # ---- locating ----
    def _attr_start(self, pos):
        """extend `pos` backwards over attribute lines directly above."""
        lines_before = self.text[:pos].split('\n')
        # position is at start of a line after optional indentation
        k = len(lines_before) - 1  # index of the current (partial) line
        start = pos - len(lines_before[-1])
        while k > 0:
            prev = lines_before[k - 1].strip()
            if prev.startswith('#[') or prev.startswith('///'):
                start -= len(lines_before[k - 1]) + 1
                k -= 1
            else:
                break
        return start

    def find_header(self, regex, lo=0, hi=None, what=''):
        hi = len(self.m) if hi is None else hi
        ms = [x for x in re.finditer(regex, self.m[lo:hi], re.M)]
        if len(ms) != 1:
            raise AnchorError('%s: %d matches for %s %r' % (self.path, len(ms), what, regex))
        return lo + ms[0].start(), lo + ms[0].end()

    def block_item(self, regex, lo=0, hi=None, what=''):
        """item with a `{...}` body whose header matches regex (header must end before `{`)."""
        s, e = self.find_header(regex, lo, hi, what)
        ob = self.m.find('{', e - 1)
        semi = self.m.find(';', e - 1)
        if what.startswith('struct') and (ob < 0 or (0 <= semi < ob)):
            # e.g. tuple struct `struct X(A, B);`
            return self._attr_start(s), semi + 1
        cb = match_close(self.m, ob)
        return self._attr_start(s), cb + 1

    def const_item(self, name):
        s, e = self.find_header(r'^[ \t]*(pub(\([a-z]+\))?\s+)?const\s+%s\s*:' % re.escape(name), what='const')
        # scan to `;` at bracket depth 0
        depth = 0
        for j in range(e, len(self.m)):
            ch = self.m[j]
            if ch in '([{':
                depth += 1
            elif ch in ')]}':
                depth -= 1
            elif ch == ';' and depth == 0:
                return self._attr_start(s), j + 1
        raise AnchorError('const %s unterminated' % name)

    def item(self, kind, name):
        if kind == 'const':
            s, e = self.const_item(name)
        elif kind in ('enum', 'struct', 'fn'):
            s, e = self.block_item(r'^[ \t]*(pub(\([a-z]+\))?\s+)?%s\s+%s\b' % (kind, re.escape(name)), what=kind + ' ' + name)
        else:
            raise ValueError(kind)
        return self.text[s:e]

    def impl_span(self, header):
        """header: text after `impl`, e.g. `From<&Rank> for u8` or `MadeHand`; whitespace-insensitive."""
        cands = []
        for mm in re.finditer(r'^[ \t]*impl\b', self.m, re.M):
            ob = self.m.find('{', mm.end())
            hdr = self.text[mm.end():ob]
            # drop generic params directly after impl (e.g. impl<'p>)
            h = hdr.strip()
            if h.startswith('<'):
                close = match_close(mask(h), 0, '<', '>')
                h = h[close + 1:]
            if norm(h) == norm(header):
                cands.append((mm.start(), ob, match_close(self.m, ob)))
        if len(cands) != 1:
            raise AnchorError('%s: %d impls match %r' % (self.path, len(cands), header))
        return cands[0]

    def impl_item(self, header):
        s, ob, cb = self.impl_span(header)
        return self.text[self._attr_start(s):cb + 1]

    def impl_fn(self, header, fname):
        s, ob, cb = self.impl_span(header)
        fs, fe = self.block_item(r'^[ \t]*(pub(\([a-z]+\))?\s+)?fn\s+%s\b' % re.escape(fname), ob, cb, what='fn ' + fname)
        return self.text[s:ob + 1], self.text[fs:fe]

    def impl_assoc_types(self, header):
        s, ob, cb = self.impl_span(header)
        return re.findall(r'^[ \t]*type\s+\w+\s*=[^;]*;', self.text[ob:cb], re.M)


# ---------------------------------------------------------------------------
# generic drops (D1, D2)

def drop_pub(text):
    m = mask(text)
    out, last = [], 0
    for mm in re.finditer(r'\bpub(\s*\([a-z:_ ]+\))?\s+', m):
        out.append(text[last:mm.start()])
        last = mm.end()
    out.append(text[last:])
    return ''.join(out)


def drop_doc_comments(text):
    return re.sub(r'^[ \t]*///.*\n', '', text, flags=re.M)


def drop_debug_derive(text):
    def fix(mm):
        items = [x.strip() for x in mm.group(1).split(',') if x.strip() and x.strip() != 'Debug']
        return '#[derive(%s)]' % ', '.join(items) if items else ''
    return re.sub(r'#\[derive\(([^)]*)\)\]', fix, text)


def pub_fields(text):
    """struct item: make every field pub (text already has no `pub`)."""
    m = mask(text)
    mm = re.search(r'\bstruct\s+\w+\s*(<[^>]*>)?\s*', m)
    if not mm:
        return text
    i = mm.end()
    if i >= len(m) or m[i] not in '({':
        return text
    close = match_close(m, i, m[i], ')' if m[i] == '(' else '}')
    inner, inner_m = text[i + 1:close], m[i + 1:close]
    # split on top-level commas
    parts, depth, last = [], 0, 0
    for k, ch in enumerate(inner_m):
        if ch in '([{<':
            depth += 1
        elif ch in ')]}>':
            depth -= 1
        elif ch == ',' and depth == 0:
            parts.append(inner[last:k])
            last = k + 1
    parts.append(inner[last:])
    out = []
    for p in parts:
        if p.strip():
            lead = p[:len(p) - len(p.lstrip())]
            out.append(lead + 'pub ' + p.lstrip())
        else:
            out.append(p)
    return text[:i + 1] + ','.join(out) + text[close:]


def clean(text, vis=None):
    """D1/D2.  vis: None (leave without pub) | 'item' (prefix the item keyword with pub)
    | 'struct' (item and every field pub)."""
    text = drop_debug_derive(drop_doc_comments(drop_pub(text)))
    if vis == 'struct':
        text = pub_fields(text)
    if vis in ('item', 'struct'):
        m = mask(text)
        mm = re.search(r'^[ \t]*(?=(?:const|fn|struct|enum)\b)', m, re.M)
        if mm:
            text = text[:mm.end()] + 'pub ' + text[mm.end():]
    return text


# ---------------------------------------------------------------------------
# function splicing

class Fn:
    """A function item's text split into signature / body with loop positions."""

    def __init__(self, text, where=''):
        self.text = text
        self.where = where
        self.m = mask(text)
        mm = re.search(r'\bfn\s+\w+', self.m)
        if not mm:
            raise AnchorError('%s: not a fn' % where)
        self.fn_kw = mm.start()
        # body open brace: first `{` at paren depth 0 after fn keyword
        depth = 0
        ob = None
        for j in range(mm.end(), len(self.m)):
            ch = self.m[j]
            if ch in '([':
                depth += 1
            elif ch in ')]':
                depth -= 1
            elif ch == '{' and depth == 0:
                ob = j
                break
        if ob is None:
            raise AnchorError('%s: fn without body' % where)
        self.ob = ob
        self.cb = match_close(self.m, ob)
        self.inserts = []  # (pos, order, text)
        self.replaces = []  # (start, end, text)

    @property
    def signature(self):
        return self.text[self.fn_kw:self.ob].strip()

    def loops(self):
        """[(kw_start, header_end(open brace idx), close brace idx)] in source order."""
        res = []
        body_m = self.m
        for mm in re.finditer(r'\b(for|while|loop)\b', body_m[self.ob:self.cb]):
            s = self.ob + mm.start()
            # skip `for<'a>` HRTB and `impl X for Y` (cannot occur in bodies normally)
            depth = 0
            ob = None
            for j in range(s + len(mm.group(0)), self.cb):
                ch = body_m[j]
                if ch in '([':
                    depth += 1
                elif ch in ')]':
                    depth -= 1
                elif ch == '{' and depth == 0:
                    ob = j
                    break
                elif ch == ';' and depth == 0:
                    break
            if ob is None:
                continue
            res.append((s, ob, match_close(body_m, ob)))
        return res

    def find_text(self, needle, nth=1, lo=None, hi=None):
        """locate whitespace-normalised `needle` inside the body; returns (start, end) in text coords."""
        lo = self.ob if lo is None else lo
        hi = self.cb if hi is None else hi
        # build normalised stream with index map
        idx = [k for k in range(lo, hi) if not self.text[k].isspace()]
        stream = ''.join(self.text[k] for k in idx)
        nd = norm(needle)
        pos, found = -1, 0
        start = 0
        while True:
            p = stream.find(nd, start)
            if p < 0:
                break
            found += 1
            if found == nth:
                pos = p
                break
            start = p + 1
        if pos < 0:
            raise AnchorError('%s: text anchor %r (#%d) not found' % (self.where, needle, nth))
        return idx[pos], idx[pos + len(nd) - 1] + 1

    def insert(self, pos, text, order=0):
        self.inserts.append((pos, order, len(self.inserts), text))

    def replace(self, s, e, text):
        self.replaces.append((s, e, text))

    def render(self):
        edits = [(p, p, o, k, t) for (p, o, k, t) in self.inserts] + \
                [(s, e, 10 ** 6, -1, t) for (s, e, t) in self.replaces]
        edits.sort(key=lambda x: (x[0], x[2], x[3]))
        out, last = [], 0
        for s, e, _, _, t in edits:
            if s < last:
                raise AnchorError('%s: overlapping edits' % self.where)
            out.append(self.text[last:s])
            out.append(t)
            last = e
        out.append(self.text[last:])
        return ''.join(out)


def sha(text):
    return hashlib.sha256(text.encode()).hexdigest()[:16]
