"""Template processor: builds one Verus file (a *unit*) from real /repo items
plus contracts.

Template syntax (file *.vt):

  #include <path relative to /verif>          -- copied after recursive processing
  #extract <repo-relative file> :: <selector>
      @ret r                                   -- name the return value
      @sigcheck <original signature text>      -- fingerprint (whitespace-insensitive)
      @attr <attribute line>
      @rename <new fn name>
      @requires / @ensures / @decreases / @recommends   -- clause lines follow
      @loop <n> [iter <name>]                  -- select n-th loop (1-based, source order)
      @invariant / @decreases / @invariant_except_break / @ensures (after @loop)
      @at body.start | loopN.start | loopN.end | loopN.before | loopN.after |
          after "<text>" [#k] | before "<text>" [#k]
      @sub "<from>" => "<to>"  [all]           -- targeted rewrite (reported in evidence)
      @rule R1|R2|...                          -- generic rewrite rule (rules.py)
  #end

Selectors:  enum X | struct X | const X | fn f | consts <regex> | impl <hdr> |
            impl <hdr> :: fn <name> [+types]

Everything else is copied verbatim (hand-written spec text).
"""
import os
import re

from . import rsx
from . import rules
from .rsx import AnchorError

VERIF = os.path.dirname(os.path.dirname(os.path.abspath(__file__)))


class UnitBuilder:
    def __init__(self, repo, canary=None):
        self.repo = repo
        self.canary = canary   # None | 'fn' | 'loop'
        self.canaries = []
        self.stubs = []
        self.sources = {}
        self.items = []      # evidence: dicts
        self.clauses = 0     # number of spliced contract clauses
        self.contracted = []  # names of fns under contract

    def source(self, rel):
        if rel not in self.sources:
            p = os.path.join(self.repo, rel)
            if not os.path.exists(p):
                raise AnchorError('missing file ' + rel)
            self.sources[rel] = rsx.Source(p)
        return self.sources[rel]

    def build(self, template_path):
        lines = open(template_path).read().split('\n')
        return '\n'.join(self._process(lines, template_path))

    def _process(self, lines, origin):
        out = []
        i = 0
        while i < len(lines):
            ln = lines[i]
            s = ln.strip()
            if s.startswith('#include '):
                p = os.path.join(VERIF, s.split(None, 1)[1].strip())
                out.extend(self._process(open(p).read().split('\n'), p))
                i += 1
            elif s.startswith('#extract '):
                j = i + 1
                block = []
                while j < len(lines) and lines[j].strip() != '#end':
                    block.append(lines[j])
                    j += 1
                if j >= len(lines):
                    raise ValueError('%s:%d: #extract without #end' % (origin, i + 1))
                out.append(self._extract(s[len('#extract '):], block, '%s:%d' % (origin, i + 1)))
                i = j + 1
            else:
                out.append(ln)
                i += 1
        return out

    # ------------------------------------------------------------------
    def _extract(self, spec, block, origin):
        rel, sel = [x.strip() for x in spec.split('::', 1)]
        src = self.source(rel)
        directives = self._parse_block(block, origin)
        fired = []
        wrap_open = wrap_close = ''
        is_fn = False
        if sel.startswith('consts '):
            rx = re.compile(r'^[ \t]*(?:pub(?:\([a-z]+\))?\s+)?const\s+(%s)\s*:' % sel[len('consts '):].strip(), re.M)
            names = rx.findall(src.m)
            if not names:
                raise AnchorError('%s: no const matches %s' % (rel, sel))
            texts = []
            for nme in names:
                t = rsx.clean(src.item('const', nme), 'item')
                for d in directives:
                    if d[0] == 'attr':
                        t = d[1] + '\n' + t
                texts.append(t)
                self.items.append({'file': rel, 'item': 'const ' + nme, 'sha256_16': rsx.sha(t), 'rules': ['D1']})
            return '\n'.join(texts)
        if sel.startswith('impl ') and ':: fn ' in sel:
            hdr, rest = sel[len('impl '):].split(':: fn ', 1)
            rest = rest.strip()
            types = rest.endswith('+types')
            fname = rest.replace('+types', '').strip()
            ihead, text = src.impl_fn(hdr.strip(), fname)
            wrap_open = ihead.strip() + '\n'
            if types:
                wrap_open += ''.join('    ' + t.strip() + '\n' for t in src.impl_assoc_types(hdr.strip()))
            wrap_close = '\n}'
            is_fn = True
            name = 'impl %s :: fn %s' % (hdr.strip(), fname)
            for d in directives:
                if d[0] == 'host':
                    # R8: re-host a trait-impl method as an inherent method of the same name
                    wrap_open = d[1].strip() + ' {\n'
                    fired.append('R8 host=' + d[1].strip())
                    sel = 'impl ' + d[1].strip().replace('impl ', '') + ' :: fn ' + fname
        elif sel.startswith('impl '):
            text = src.impl_item(sel[len('impl '):].strip())
            name = sel
        else:
            kind, nme = sel.split(None, 1)
            text = src.item(kind, nme.strip())
            is_fn = kind == 'fn'
            name = sel
        raw_sha = rsx.sha(rsx.norm_fp(text))
        for d in directives:
            if d[0] == 'fingerprint' and d[1].strip() != raw_sha:
                # an ASSUMED (unverified) function is pinned to the text its contract was argued for
                raise AnchorError('assumed function %s changed (fingerprint %s, expected %s): its assumed contract is no longer backed' % (name, raw_sha, d[1].strip()))
        if sel.startswith('struct '):
            vis = 'struct'
        elif sel.startswith('impl ') and ':: fn ' not in sel:
            vis = None
        elif sel.startswith('impl ') and re.search(r'\bfor\b', sel.split('::')[0]):
            vis = None      # trait impl method: no visibility qualifier allowed
        else:
            vis = 'item'
        text = rsx.clean(text, vis)
        wrap_open = rsx.clean(wrap_open)
        fired.append('D1')
        for d in directives:
            if d[0] == 'rule':
                text, n = rules.apply(d[1], text)
                if n == 0:
                    raise AnchorError('%s: rule %s did not fire on %s' % (origin, d[1], name))
                fired.append('%s x%d' % (d[1], n))
        if is_fn:
            text = self._splice_fn(text, directives, name, origin, fired)
        else:
            text = self._apply_subs(text, directives, name, fired)
        attrs = ''.join(d[1] + '\n' for d in directives if d[0] == 'attr')
        if wrap_open:
            # attributes belong on the fn inside the impl
            text = wrap_open + attrs + text + wrap_close
        else:
            text = attrs + text
        self.items.append({'file': rel, 'item': name, 'sha256_16_raw': raw_sha, 'rules': fired})
        return text

    def _apply_subs(self, text, directives, name, fired):
        for d in directives:
            if d[0] == 'derive':
                # @derive [Traits]: whatever the item derives in the source, the unit derives exactly the listed traits
                # (the meaning of the dropped derives is supplied by the *SpecImpl assumptions of the unit)
                text, n = re.subn(r'#\[derive\([^)]*\)\]\s*', '', text)
                keep = d[1].strip()
                if keep:
                    text = '#[derive(%s)]\n' % keep + text
                fired.append('derive: %d derive attribute(s) replaced by [%s]' % (n, keep))
        for d in directives:
            if d[0] == 'sub':
                frm, to, allf = d[1]
                f = rsx.Fn.__new__(rsx.Fn)
                # plain text substitution, whitespace-insensitive
                text, n = _sub_ws(text, frm, to, allf)
                if n == 0:
                    raise AnchorError('%s: sub anchor %r not found' % (name, frm))
                fired.append('sub %r=>%r x%d' % (frm, to, n))
        return text

    def _splice_fn(self, text, directives, name, origin, fired):
        text = self._apply_subs(text, directives, name, fired)
        fn = rsx.Fn(text, where=name)
        loops = fn.loops()
        has_contract = False
        cur_loop = None
        sig_clauses = []
        loop_clauses = {}
        for d in directives:
            k = d[0]
            if k == 'sigcheck':
                if rsx.norm(d[1]) != rsx.norm(fn.signature):
                    raise AnchorError('%s: signature changed: %r != %r' % (name, fn.signature, d[1]))
            elif k == 'ret':
                mm = re.search(r'->\s*', fn.m[fn.fn_kw:fn.ob])
                if not mm:
                    raise AnchorError('%s: no return type to name' % name)
                s = fn.fn_kw + mm.end()
                # return type runs to `where` or the body
                e = fn.ob
                wm = re.search(r'\bwhere\b', fn.m[s:fn.ob])
                if wm:
                    e = s + wm.start()
                ty = fn.text[s:e].strip()
                fn.replace(s, e, '(%s: %s)\n' % (d[1], ty))
            elif k == 'rename':
                mm = re.search(r'\bfn\s+(\w+)', fn.m)
                fn.replace(mm.start(1), mm.end(1), d[1])
            elif k == 'loop':
                n, itname = d[1]
                if n < 1 or n > len(loops):
                    raise AnchorError('%s: loop %d not found (%d loops)' % (name, n, len(loops)))
                cur_loop = n
                loop_clauses.setdefault(n, [])
                if itname:
                    s, ob, cb = loops[n - 1]
                    hdr = fn.text[s:ob]
                    mm = re.match(r'for\s+(.+?)\s+in\s+', hdr, re.S)
                    if not mm:
                        raise AnchorError('%s: loop %d is not a for loop' % (name, n))
                    fn.insert(s + mm.end(), itname + ': ')
            elif k in ('requires', 'ensures', 'decreases', 'recommends', 'invariant', 'invariant_except_break', 'no_unwind'):
                body = d[1]
                self.clauses += _count_clauses(body)
                has_contract = True
                if d[2] is None:
                    sig_clauses.append((k, body))
                else:
                    loop_clauses[d[2]].append((k, body))
            elif k == 'at':
                anchor, body = d[1]
                pos = self._anchor(fn, loops, anchor, name)
                fn.insert(pos, '\n' + body + '\n', order=1)
        for d in directives:
            if d[0] == 'cut_from':
                # D3: keep only the prefix of the body up to (not including) the anchored statement; the
                # function then returns the expression given after `=>`
                mm = re.match(r'"(.*)"\s*=>\s*(.*)$', d[1], re.S)
                if not mm:
                    raise ValueError('%s: bad @cut_from' % origin)
                s0, _ = fn.find_text(mm.group(1))
                fn.replace(s0, fn.cb, mm.group(2) + '\n')
                fired.append('D3 cut_from %r (tail dropped)' % mm.group(1))
        if any(d[0] == 'stub' for d in directives):
            # callee stub: the body is dropped, only the contract is used by callers in this unit
            fn.replace(fn.ob, fn.cb + 1, '{ unimplemented!() }')
            fired.append('stub (body dropped; contract proved in its own unit)')
            self.stubs.append(name)
        if sig_clauses:
            order = {'requires': 0, 'recommends': 0, 'ensures': 1, 'decreases': 2, 'no_unwind': 3}
            sig_clauses.sort(key=lambda x: order.get(x[0], 9))
            merged = []
            for k, b in sig_clauses:   # several blocks of one kind (contract file + unit additions) become one clause
                if merged and merged[-1][0] == k:
                    merged[-1] = (k, merged[-1][1].rstrip('\n') + '\n' + b)
                else:
                    merged.append((k, b))
            sig_clauses = merged
            fn.insert(fn.ob, '\n' + ''.join('    %s\n%s\n' % (k, b) for k, b in sig_clauses))
        for n, cl in loop_clauses.items():
            if cl:
                s, ob, cb = loops[n - 1]
                order = {'invariant_except_break': 0, 'invariant': 1, 'ensures': 2, 'decreases': 3}
                cl.sort(key=lambda x: order.get(x[0], 9))
                fn.insert(ob, '\n' + ''.join('    %s\n%s\n' % (k, b) for k, b in cl))
        is_stub = any(d[0] == 'stub' for d in directives)
        if has_contract and not is_stub:
            self.contracted.append(name)
            if self.canary == 'fn':
                lab = 'fn:' + name.replace(' ', '_')
                fn.insert(fn.ob + 1, ' assert(false); /*CANARY %s*/\n' % lab, order=-1)
                self.canaries.append(lab)
            if self.canary == 'loop':
                for n, cl in loop_clauses.items():
                    if cl:
                        s, ob, cb = loops[n - 1]
                        lab = 'loop%d:%s' % (n, name.replace(' ', '_'))
                        fn.insert(ob + 1, ' assert(false); /*CANARY %s*/\n' % lab, order=-1)
                        self.canaries.append(lab)
        return fn.render()

    def _anchor(self, fn, loops, anchor, name):
        a = anchor.strip()
        if a == 'body.start':
            return fn.ob + 1
        mm = re.match(r'loop(\d+)\.(start|end|before|after)$', a)
        if mm:
            n = int(mm.group(1))
            if n < 1 or n > len(loops):
                raise AnchorError('%s: loop %d not found' % (name, n))
            s, ob, cb = loops[n - 1]
            return {'start': ob + 1, 'end': cb, 'before': s, 'after': cb + 1}[mm.group(2)]
        mm = re.match(r'(after|before)\s+"(.*)"\s*(?:#(\d+))?$', a, re.S)
        if mm:
            s, e = fn.find_text(mm.group(2), int(mm.group(3) or 1))
            return e if mm.group(1) == 'after' else s
        raise ValueError('bad anchor ' + anchor)

    def _parse_block(self, block, origin):
        ds = []
        cur = None
        cur_loop = None

        def flush():
            nonlocal cur
            if cur is not None:
                k, head, body = cur
                text = '\n'.join(body)
                if k == 'at':
                    ds.append(('at', (head, text)))
                else:
                    ds.append((k, text, cur_loop if k != 'requires' else None))
                cur = None

        expanded = []
        for ln in block:
            if ln.strip().startswith('@include '):
                expanded.extend(open(os.path.join(VERIF, ln.strip().split(None, 1)[1])).read().split('\n'))
            else:
                expanded.append(ln)
        for ln in expanded:
            s = ln.strip()
            if s.startswith('@'):
                flush()
                parts = s[1:].split(None, 1)
                k = parts[0]
                arg = parts[1] if len(parts) > 1 else ''
                if k in ('ret', 'sigcheck', 'attr', 'rename', 'rule', 'host', 'stub', 'fingerprint', 'cut_from', 'derive'):
                    ds.append((k, arg))
                elif k == 'loop':
                    a = arg.split()
                    cur_loop = int(a[0])
                    ds.append(('loop', (cur_loop, a[2] if len(a) >= 3 and a[1] == 'iter' else None)))
                elif k == 'fn':
                    cur_loop = None
                elif k == 'sub':
                    mm = re.match(r'"(.*)"\s*=>\s*"(.*)"\s*(all)?$', arg, re.S)
                    if not mm:
                        raise ValueError('%s: bad @sub %r' % (origin, arg))
                    ds.append(('sub', (mm.group(1).replace('\\"', '"'), mm.group(2).replace('\\"', '"'), bool(mm.group(3)))))
                elif k in ('requires', 'ensures', 'decreases', 'recommends', 'invariant', 'invariant_except_break', 'no_unwind'):
                    cur = (k, None, [arg] if arg else [])
                elif k == 'at':
                    cur = ('at', arg, [])
                else:
                    raise ValueError('%s: unknown directive @%s' % (origin, k))
            else:
                if cur is not None:
                    cur[2].append(ln)
                elif s:
                    raise ValueError('%s: stray line in #extract block: %r' % (origin, ln))
        flush()
        return ds


def _count_clauses(body):
    """clauses are separated by top-level commas; count conservatively as non-empty lines ending in ','"""
    n = 0
    depth = 0
    cur = False
    for ch in rsx.mask(body):
        if ch in '([{':
            depth += 1
        elif ch in ')]}':
            depth -= 1
        elif ch == ',' and depth == 0:
            if cur:
                n += 1
            cur = False
            continue
        if not ch.isspace():
            cur = True
    if cur:
        n += 1
    return n


def _sub_ws(text, frm, to, allf):
    """replace whitespace-insensitive occurrences of frm in text."""
    idx = [k for k in range(len(text)) if not text[k].isspace()]
    stream = ''.join(text[k] for k in idx)
    nd = rsx.norm(frm)
    spans = []
    start = 0
    while True:
        p = stream.find(nd, start)
        if p < 0:
            break
        spans.append((idx[p], idx[p + len(nd) - 1] + 1))
        start = p + len(nd)
        if not allf:
            # must be unique
            if stream.find(nd, start) >= 0:
                raise AnchorError('sub anchor %r is not unique' % frm)
            break
    out, last = [], 0
    for s, e in spans:
        out.append(text[last:s])
        out.append(to)
        last = e
    out.append(text[last:])
    return ''.join(out), len(spans)
