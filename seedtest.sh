#!/bin/bash
# usage: seedtest.sh <seed-dir-name> <PROP> [more PROPs]   e.g. seedtest.sh seed_C02 C02
# Confirms a seeded change (tests pass, demo fails with / passes without), stores it under /verif/seeded/,
# then runs the named checks against it on /repo itself and undoes it straight afterwards.
set -u
S=/tmp/$1; shift
ID=$(basename $S | sed 's/seed_//')
D=/verif/seeded/$ID
mkdir -p $D
cd $S || exit 1
lc=$(echo $ID | tr 'A-Z' 'a-z' | sed 's/_.*//')
demo=$(ls tests/demo_*.rs | head -1)
dn=$(basename $demo .rs)
echo "== with change: crate test suite"
cargo test --workspace --no-fail-fast --offline --lib 2>&1 | grep -E "^test result" | head -2 | tee $D/with_change_suite.txt
echo "== with change: demo (must fail)"
cargo test --offline --test $dn 2>&1 | grep -E "^test result|panicked|FAILED" | head -5 | tee $D/with_change_demo.txt
git apply -R patch.diff
echo "== without change: demo (must pass)"
cargo test --offline --test $dn 2>&1 | grep -E "^test result" | head -3 | tee $D/without_change_demo.txt
git apply patch.diff
cp patch.diff $D/patch.diff; cp $demo $D/
cd /verif
if ! git -C /repo diff --quiet; then echo "/repo dirty, abort"; exit 1; fi
git -C /repo apply $D/patch.diff || exit 1
for P in "$@"; do
  echo "== check $P against the change"
  VERIF_DEV_RUN=1 ./vcheck $P --tier quick 2>&1 | tail -3 | tee $D/check_$P.txt; echo "exit=${PIPESTATUS[0]}" | tee -a $D/check_$P.txt
  cp build/replays/${P}_1.json $D/replay_$P.json 2>/dev/null
done
git -C /repo checkout -- .
git -C /repo status --short | head -3
