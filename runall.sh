#!/bin/bash
# development aid: run every claimed check on the unchanged tree (regenerates evidence/)
cd /verif
for p in $(python3 -c "import json;print(' '.join(c['property_id'] for c in json.load(open('MANIFEST.json'))['checks']))"); do
  s=$(date +%s); ./vcheck $p --tier ${1:-quick} > /tmp/runall_$p.log 2>&1; rc=$?; e=$(date +%s)
  echo "$p rc=$rc $((e-s))s $(tail -1 /tmp/runall_$p.log | cut -c1-150)"
done
