#!/bin/bash
# usage: bentest.sh <group> <k> <PROP>...   applies /verif/benign/<group>/benign_<k>.diff (a behaviour-preserving
# refactoring produced by a sub-agent) to /repo, runs the named checks (dev mode: evidence not touched), undoes it.
# Expected: exit 0 (or 2 = undecided when an anchor is lost); exit 1 would be a false alarm.
g=$1; k=$2; shift; shift
p=/verif/${BENDIR:-benign}/$g/benign_$k.diff
git -C /repo apply $p || exit 9
for id in "$@"; do
  s=$(date +%s)
  VERIF_DEV_RUN=1 /verif/vcheck $id > /tmp/ben_${g}_${k}_$id.log 2>&1; rc=$?
  echo "$g/$k $id rc=$rc $(( $(date +%s) - s ))s $(grep -E '^(VIOLATION|UNDECIDED|KNOWN)' /tmp/ben_${g}_${k}_$id.log | head -2 | cut -c1-300)"
done
git -C /repo checkout -- . && git -C /repo clean -fdq
git -C /repo status --short
