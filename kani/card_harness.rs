//! Kani harnesses for unit CARD (C13, C14): each harness proves one postcondition of one real function
//! over its ENTIRE finite domain (symbolic rank 0..12, suit 0..3, every `char`, every byte pair);
//! loop-free or constant-bounded with unwinding assertions on, hence complete, not bounded.
//! Injected into a scratch copy of /repo as `src/verif_kani.rs` (never committed to /repo).
use crate::card::{Card, Rank, RankRange, Suit, SuitRange};
use crate::hand_range::CardPair;
use std::str::FromStr;

fn rank_of(code: u8) -> Rank {
    match code {
        0 => Rank::Ace, 1 => Rank::King, 2 => Rank::Queen, 3 => Rank::Jack, 4 => Rank::Ten, 5 => Rank::Nine,
        6 => Rank::Eight, 7 => Rank::Seven, 8 => Rank::Six, 9 => Rank::Five, 10 => Rank::Four, 11 => Rank::Trey,
        _ => Rank::Deuce,
    }
}
fn suit_of(code: u8) -> Suit {
    match code { 0 => Suit::Spade, 1 => Suit::Heart, 2 => Suit::Diamond, _ => Suit::Club }
}
const RANK_CH: [char; 13] = ['A', 'K', 'Q', 'J', 'T', '9', '8', '7', '6', '5', '4', '3', '2'];
const SUIT_CH: [char; 4] = ['s', 'h', 'd', 'c'];

fn any_rank_code() -> u8 { let c: u8 = kani::any(); kani::assume(c < 13); c }
fn any_suit_code() -> u8 { let c: u8 = kani::any(); kani::assume(c < 4); c }

// ---------------- C13 ----------------

#[kani::proof]
fn c13_rank_suit_codes() {
    let rc = any_rank_code();
    let sc = any_suit_code();
    let r = rank_of(rc);
    let s = suit_of(sc);
    kani::cover!(true);
    assert!(u8::from(&r) == rc && u8::from(r) == rc);
    assert!(u8::from(&s) == sc && u8::from(s) == sc);
    assert!(char::from(&r) == RANK_CH[rc as usize] && char::from(r) == RANK_CH[rc as usize]);
    assert!(char::from(&s) == SUIT_CH[sc as usize] && char::from(s) == SUIT_CH[sc as usize]);
    assert!(Rank::try_from(char::from(r)) == Ok(r));
    assert!(Suit::try_from(char::from(s)) == Ok(s));
}

#[kani::proof]
fn c13_rank_suit_from_any_char() {
    let c: char = kani::any();
    kani::cover!(c == 'T');
    let is_rank = RANK_CH.contains(&c);
    match Rank::try_from(c) {
        Ok(r) => assert!(is_rank && char::from(r) == c),
        Err(()) => assert!(!is_rank),
    }
    match Rank::try_from(&c) {
        Ok(r) => assert!(is_rank && char::from(r) == c),
        Err(()) => assert!(!is_rank),
    }
    let is_suit = SUIT_CH.contains(&c);
    match Suit::try_from(c) {
        Ok(s) => assert!(is_suit && char::from(s) == c),
        Err(()) => assert!(!is_suit),
    }
    match Suit::try_from(&c) {
        Ok(s) => assert!(is_suit && char::from(s) == c),
        Err(()) => assert!(!is_suit),
    }
}

#[kani::proof]
fn c13_order_next_prev() {
    let (a, b) = (any_rank_code(), any_rank_code());
    kani::cover!(a < b);
    let (ra, rb) = (rank_of(a), rank_of(b));
    assert!((ra < rb) == (a < b) && (ra == rb) == (a == b) && ra.cmp(&rb) == a.cmp(&b) && ra.partial_cmp(&rb) == Some(a.cmp(&b)));
    let (x, y) = (any_suit_code(), any_suit_code());
    let (sx, sy) = (suit_of(x), suit_of(y));
    assert!((sx < sy) == (x < y) && (sx == sy) == (x == y) && sx.cmp(&sy) == x.cmp(&y));
    let (c1, c2) = (Card::new(ra, sx), Card::new(rb, sy));
    assert!(c1.cmp(&c2) == (a, x).cmp(&(b, y)) && (c1 == c2) == (a == b && x == y) && (c1 < c2) == ((a, x) < (b, y)));
    assert!(*c1.rank() == ra && *c1.suit() == sx);
    match ra.next() { Some(n) => assert!(a < 12 && u8::from(n) == a + 1), None => assert!(a == 12) }
    match ra.prev() { Some(p) => assert!(a > 0 && u8::from(p) == a - 1), None => assert!(a == 0) }
}

#[kani::proof]
fn c13_card_bit() {
    let (rc, sc) = (any_rank_code(), any_suit_code());
    kani::cover!(rc == 12 && sc == 3);
    let card = Card::new(rank_of(rc), suit_of(sc));
    let bit: u64 = u64::from(&card);
    assert!(bit == 1u64 << (4 * rc as u32 + sc as u32));
    assert!(u64::from(card) == bit);
    assert!(Card::from(&bit) == card && Card::from(bit) == card);
}

#[kani::proof]
fn c13_bit_card() {
    let k: u32 = kani::any();
    kani::assume(k < 52);
    kani::cover!(k == 51);
    let bit = 1u64 << k;
    let card = Card::from(&bit);
    assert!(u64::from(&card) == bit);
    assert!(u8::from(card.rank()) as u32 == k / 4 && u8::from(card.suit()) as u32 == k % 4);
}

#[kani::proof]
#[kani::unwind(6)]
fn c13_card_text_roundtrip() {
    let (rc, sc) = (any_rank_code(), any_suit_code());
    kani::cover!(rc == 4 && sc == 2);
    let card = Card::new(rank_of(rc), suit_of(sc));
    let s = card.to_string();
    let b = s.as_bytes();
    assert!(b.len() == 2 && b[0] as char == RANK_CH[rc as usize] && b[1] as char == SUIT_CH[sc as usize]);
    match s.parse::<Card>() { Ok(c) => assert!(c == card), Err(_) => { assert!(false); } }
}

#[kani::proof]
#[kani::unwind(15)]
fn c13_card_parse_two_ascii() {
    // every two-character ASCII text: accepted iff (rank char, suit char), and then it is that card
    let b: [u8; 2] = kani::any();
    kani::assume(b[0] < 128 && b[1] < 128);
    let s = unsafe { std::str::from_utf8_unchecked(&b) };   // ASCII by assumption
    let ri = RANK_CH.iter().position(|c| *c == b[0] as char);
    let si = SUIT_CH.iter().position(|c| *c == b[1] as char);
    kani::cover!(ri.is_some() && si.is_some());
    match Card::from_str(s) {
        Ok(c) => assert!(ri == Some(u8::from(c.rank()) as usize) && si == Some(u8::from(c.suit()) as usize)),
        Err(_) => assert!(ri.is_none() || si.is_none()),
    }
}

#[kani::proof]
#[kani::unwind(6)]
fn c13_card_parse_one_ascii() {
    let b: [u8; 1] = kani::any();
    kani::assume(b[0] < 128);
    let s = unsafe { std::str::from_utf8_unchecked(&b) };   // ASCII by assumption
    kani::cover!(b[0] == b'A');
    assert!(Card::from_str(s).is_err());
}

#[kani::proof]
#[kani::unwind(15)]
fn c13_rank_range() {
    let (a, b) = (any_rank_code(), any_rank_code());
    kani::assume(a <= b);
    kani::cover!(a == 0 && b == 12);
    let v: Vec<Rank> = RankRange::inclusive(rank_of(a), rank_of(b)).into_iter().collect();
    assert!(v.len() == (b - a + 1) as usize);
    let mut k = 0usize;
    while k < v.len() { assert!(u8::from(v[k]) == a + k as u8); k += 1; }
    let w: Vec<Rank> = RankRange::new(rank_of(a), rank_of(b)).into_iter().collect();
    assert!(w.len() == (b - a) as usize);
    let mut k = 0usize;
    while k < w.len() { assert!(u8::from(w[k]) == a + k as u8); k += 1; }
}

#[kani::proof]
#[kani::unwind(15)]
fn c13_rank_range_all() {
    let v: Vec<Rank> = RankRange::all().into_iter().collect();
    assert!(v.len() == 13);
    let mut k = 0usize;
    while k < 13 { assert!(u8::from(v[k]) == k as u8); k += 1; }
    let s: Vec<Suit> = SuitRange::all().into_iter().collect();
    assert!(s.len() == 4);
    let mut k = 0usize;
    while k < 4 { assert!(u8::from(s[k]) == k as u8); k += 1; }
}

#[kani::proof]
#[kani::unwind(6)]
fn c13_suit_range() {
    let (a, b) = (any_suit_code(), any_suit_code());
    kani::assume(a <= b);
    kani::cover!(a == 0 && b == 3);
    let v: Vec<Suit> = SuitRange::inclusive(suit_of(a), suit_of(b)).into_iter().collect();
    assert!(v.len() == (b - a + 1) as usize);
    let mut k = 0usize;
    while k < v.len() { assert!(u8::from(v[k]) == a + k as u8); k += 1; }
    let w: Vec<Suit> = SuitRange::new(suit_of(a), suit_of(b)).into_iter().collect();
    assert!(w.len() == (b - a) as usize);
    let mut k = 0usize;
    while k < w.len() { assert!(u8::from(w[k]) == a + k as u8); k += 1; }
}

// ---------------- C14 ----------------

fn any_card() -> Card { Card::new(rank_of(any_rank_code()), suit_of(any_suit_code())) }

#[kani::proof]
fn c14_pair_canonical() {
    let (a, b) = (any_card(), any_card());
    kani::cover!(true);
    let p = CardPair::new(a, b);
    let q = CardPair::new(b, a);
    assert!(p == q);
    assert!(p[0] <= p[1]);
    assert!((p[0] == a && p[1] == b) || (p[0] == b && p[1] == a));
    // derived Hash feeds the two fields in order: equal values, equal hashes
    assert!(fxhash::hash64(&p) == fxhash::hash64(&q));
}

#[kani::proof]
#[kani::unwind(8)]
fn c14_pair_text_roundtrip() {
    let (a, b) = (any_card(), any_card());
    kani::assume(a != b);
    kani::cover!(true);
    let p = CardPair::new(a, b);
    let s = p.to_string();
    assert!(s.len() == 4);
    match s.parse::<CardPair>() { Ok(q) => assert!(q == p), Err(_) => { assert!(false); } }
}

#[kani::proof]
#[kani::unwind(8)]
fn c14_pair_text_either_order() {
    // text of card a followed by card b parses to the same pair as b followed by a
    let (ra, sa, rb, sb) = (any_rank_code(), any_suit_code(), any_rank_code(), any_suit_code());
    let ab = [RANK_CH[ra as usize] as u8, SUIT_CH[sa as usize] as u8, RANK_CH[rb as usize] as u8, SUIT_CH[sb as usize] as u8];
    let ba = [ab[2], ab[3], ab[0], ab[1]];
    let s1 = unsafe { std::str::from_utf8_unchecked(&ab) };
    let s2 = unsafe { std::str::from_utf8_unchecked(&ba) };
    kani::cover!(ra < rb);
    match (CardPair::from_str(s1), CardPair::from_str(s2)) {
        (Ok(p), Ok(q)) => {
            assert!(p == q);
            assert!(p == CardPair::new(Card::new(rank_of(ra), suit_of(sa)), Card::new(rank_of(rb), suit_of(sb))));
        }
        _ => { assert!(false); }
    }
}

// ---------------- C09 (strings; BOUNDED: every ASCII string up to N bytes, and every such string with the
// two-byte character 'é' at any offset; built with from_utf8_unchecked from bytes valid by construction) ------
// The guards `len() == 2` / `len() != 4` send every longer input down a content-independent error path.

fn sym_str<const N: usize>(bytes: &mut [u8; N], multibyte: bool) -> usize {
    let len: usize = kani::any();
    kani::assume(len <= N);
    let mut i = 0;
    while i < N { kani::assume(bytes[i] < 128); i += 1; }
    if multibyte {
        let k: usize = kani::any();
        kani::assume(k < N && k + 1 < len);
        bytes[k] = 0xC3;
        bytes[k + 1] = 0xA9;
    }
    len
}

#[kani::proof]
#[kani::unwind(7)]
fn c09_rank_suit_card_from_str_4() {
    let mut bytes: [u8; 4] = kani::any();
    let mb: bool = kani::any();
    let len = sym_str::<4>(&mut bytes, mb);
    let s = unsafe { std::str::from_utf8_unchecked(&bytes[..len]) };
    kani::cover!(len == 2 && !mb);
    kani::cover!(len == 2 && mb);
    let r = Rank::from_str(s);
    let t = Suit::from_str(s);
    if len == 0 { assert!(r.is_err() && t.is_err()); }
    match Card::from_str(s) {
        Ok(c) => assert!(len == 2 && !mb && bytes[0] as char == char::from(c.rank()) && bytes[1] as char == char::from(c.suit())),
        Err(_) => {}
    }
}

#[kani::proof]
#[kani::unwind(9)]
fn c09_cardpair_from_str_6() {
    let mut bytes: [u8; 6] = kani::any();
    let mb: bool = kani::any();
    let len = sym_str::<6>(&mut bytes, mb);
    let s = unsafe { std::str::from_utf8_unchecked(&bytes[..len]) };
    kani::cover!(len == 4 && mb);
    match CardPair::from_str(s) {
        Ok(p) => assert!(len == 4 && !mb && p[0] <= p[1]),
        Err(_) => {}
    }
}

// ---------------- C10: the product of two weights in [0, 1] is in [0, 1] (binary32, complete) ----------------
#[kani::proof]
fn c10_f32_product_unit_interval() {
    let a: f32 = kani::any();
    let b: f32 = kani::any();
    kani::assume(a >= 0.0 && a <= 1.0 && b >= 0.0 && b <= 1.0);
    kani::cover!(a == 0.5 && b == 0.25);
    let mut p: f32 = 1.0;
    p *= a;
    assert!(p == a);
    p *= b;
    assert!(p >= 0.0 && p <= 1.0);
}
