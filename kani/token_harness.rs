
// ===== injected by /verif (scratch copy only): Kani harnesses for unit TOKEN (C05, C09, C10) =====
#[cfg(kani)]
mod verif_kani_token {
    use super::*;
    use crate::card::{Card, Suit};

    const RANK_CH: [u8; 13] = [b'A', b'K', b'Q', b'J', b'T', b'9', b'8', b'7', b'6', b'5', b'4', b'3', b'2'];
    const SUIT_CH: [u8; 4] = [b's', b'h', b'd', b'c'];

    fn rank_of(code: u8) -> Rank {
        match code {
            0 => Rank::Ace, 1 => Rank::King, 2 => Rank::Queen, 3 => Rank::Jack, 4 => Rank::Ten, 5 => Rank::Nine,
            6 => Rank::Eight, 7 => Rank::Seven, 8 => Rank::Six, 9 => Rank::Five, 10 => Rank::Four, 11 => Rank::Trey,
            _ => Rank::Deuce,
        }
    }
    fn suit_of(code: u8) -> Suit { match code { 0 => Suit::Spade, 1 => Suit::Heart, 2 => Suit::Diamond, _ => Suit::Club } }
    fn any_rank() -> u8 { let c: u8 = kani::any(); kani::assume(c < 13); c }
    fn any_suit() -> u8 { let c: u8 = kani::any(); kani::assume(c < 4); c }

    /// Abstraction of parse_probability on the weight grammar `[01](\.[0-9]+)?`: an OVER-approximation of a
    /// correctly rounded `f32::from_str` that is deterministic per class of text within one harness run
    /// (the parser reads the weight twice: once for the `> 1.0` test, once for the value it stores):
    ///   "0" / "0.000"                      -> exactly 0.0
    ///   "0.<some nonzero digit>"           -> ANY f32 in [0, 1]              (symbolic, fixed per run)
    ///   "1" / "1.000"                      -> exactly 1.0
    ///   "1.<nonzero within 7 digits>"      -> ANY f32 in [1 + EPSILON, 2)    (value >= 1.0000001 rounds up)
    ///   "1.<nonzero only after 7 digits>"  -> 1.0 or 1 + EPSILON             (value < 1.0000001)
    /// anything else behaves like `f32::from_str(..).unwrap_or(1.0)` failing, i.e. 1.0 (such texts never pass
    /// a token regex).
    static mut MEMO_LOW: (bool, f32) = (false, 0.0);
    static mut MEMO_HIGH: (bool, f32) = (false, 0.0);
    static mut MEMO_EDGE: (bool, f32) = (false, 0.0);

    pub fn stub_parse_probability(value: &str) -> f32 {
        let b = value.as_bytes();
        let mut i = 0;
        if b.len() >= 1 && b[0] == b':' { i = 1; }
        if i >= b.len() { return 1.0; }
        let d0 = b[i];
        if d0 != b'0' && d0 != b'1' { return 1.0; }
        i += 1;
        let mut frac_nonzero = false;
        let mut early_nonzero = false;
        if i < b.len() {
            if b[i] != b'.' { return 1.0; }
            i += 1;
            if i >= b.len() { return 1.0; }
            let start = i;
            while i < b.len() {
                if b[i] < b'0' || b[i] > b'9' { return 1.0; }
                if b[i] != b'0' { frac_nonzero = true; if i - start < 7 { early_nonzero = true; } }
                i += 1;
            }
        }
        unsafe {
            if d0 == b'0' {
                if !frac_nonzero { return 0.0; }
                if !MEMO_LOW.0 { let v: f32 = kani::any(); kani::assume(v >= 0.0 && v <= 1.0); MEMO_LOW.0 = true; MEMO_LOW.1 = v; }
                MEMO_LOW.1
            } else if !frac_nonzero {
                1.0
            } else if early_nonzero {
                if !MEMO_HIGH.0 { let v: f32 = kani::any(); kani::assume(v >= 1.0 + f32::EPSILON && v < 2.0); MEMO_HIGH.0 = true; MEMO_HIGH.1 = v; }
                MEMO_HIGH.1
            } else {
                if !MEMO_EDGE.0 { let up: bool = kani::any(); MEMO_EDGE.0 = true; MEMO_EDGE.1 = if up { 1.0 + f32::EPSILON } else { 1.0 }; }
                MEMO_EDGE.1
            }
        }
    }

    /// the data-structure invariant a parsed token must satisfy (DESIGN.md C09/C10); mirrors token_wf of the Verus unit
    fn token_wf(t: &HandRangeToken) -> bool { kind_wf(t) && weight_unit(t) }
    /// C10's half: the weight lies in the unit interval
    fn weight_unit(t: &HandRangeToken) -> bool { t.probability >= 0.0 && t.probability <= 1.0 }
    /// the half C09 needs (expansion has no panic path): ordered spans, two different cards
    fn kind_wf(t: &HandRangeToken) -> bool {
        let k_ok = match t.kind {
            HandRangeTokenKind::BottomClosedRankPairRange(rp) => match rp {
                RankPair::Pocket(_) => true,
                RankPair::Suited(h, k) => h < k,
                RankPair::Ofsuit(h, k) => h < k,
            },
            HandRangeTokenKind::DoubleClosedRankPairRange(rp, e) => match rp {
                RankPair::Pocket(a) => a <= e,
                RankPair::Suited(h, k) => h < k && k <= e,
                RankPair::Ofsuit(h, k) => h < k && k <= e,
            },
            HandRangeTokenKind::SingleRankPair(rp) => match rp {
                RankPair::Pocket(_) => true,
                RankPair::Suited(h, k) => h != k,
                RankPair::Ofsuit(h, k) => h != k,
            },
            HandRangeTokenKind::SingleCardPair(p) => p[0] != p[1],
        };
        k_ok
    }

    // ---- C09 / C10: every ASCII string up to N bytes, and every such string with the two-byte character
    // 'é' at any offset, is parsed without panicking, and Ok(t) ==> token_wf(t).   (BOUNDED by N.)
    // Strings are built with from_utf8_unchecked from bytes that are valid UTF-8 by construction:
    // std's UTF-8 validation of symbolic bytes is what makes CBMC blow up, not the parser.
    fn total_parse<const N: usize>(with_multibyte: bool) {
        let mut bytes: [u8; N] = kani::any();
        let len: usize = kani::any();
        kani::assume(len <= N);
        let mut i = 0;
        while i < N { kani::assume(bytes[i] < 128); i += 1; }
        if with_multibyte {
            let k: usize = kani::any();
            kani::assume(k < N && k + 1 < len);
            bytes[k] = 0xC3;
            bytes[k + 1] = 0xA9;
        }
        let s = unsafe { std::str::from_utf8_unchecked(&bytes[..len]) };
        kani::cover!(len == N);
        match HandRangeToken::from_str(s) {
            // two separate obligations: C09 owns kind_wf, C10 owns both (a failure of weight_unit alone is not a C09 failure)
            Ok(t) => { assert!(kind_wf(&t)); assert!(weight_unit(&t)); }
            Err(()) => {}
        }
    }

    #[kani::proof]
    #[kani::unwind(8)]
    #[kani::stub(parse_probability, stub_parse_probability)]
    fn tok_total_parse_6() { total_parse::<6>(false); }

    #[kani::proof]
    #[kani::unwind(8)]
    #[kani::stub(parse_probability, stub_parse_probability)]
    fn tok_total_parse_6_multibyte() { total_parse::<6>(true); }

    #[kani::proof]
    #[kani::unwind(11)]
    #[kani::stub(parse_probability, stub_parse_probability)]
    fn tok_total_parse_9() { total_parse::<9>(false); }

    #[kani::proof]
    #[kani::unwind(11)]
    #[kani::stub(parse_probability, stub_parse_probability)]
    fn tok_total_parse_9_multibyte() { total_parse::<9>(true); }

    #[kani::proof]
    #[kani::unwind(14)]
    #[kani::stub(parse_probability, stub_parse_probability)]
    fn tok_total_parse_12() { total_parse::<12>(false); }

    #[kani::proof]
    #[kani::unwind(14)]
    #[kani::stub(parse_probability, stub_parse_probability)]
    fn tok_total_parse_12_multibyte() { total_parse::<12>(true); }

    // Ok-reachability: some string of each length class parses (guards against a vacuous Ok branch)
    #[kani::proof]
    #[kani::unwind(8)]
    #[kani::stub(parse_probability, stub_parse_probability)]
    fn tok_ok_reachable() {
        let s = [b'A', b'K', b's', b'+', b':', b'0'];
        let r = HandRangeToken::from_str(unsafe { std::str::from_utf8_unchecked(&s) });
        kani::cover!(r.is_ok());
        assert!(r.is_ok());
    }

    // ---- C05: every well-formed token text (without weight) parses to the value it denotes, weight 1 ----
    #[kani::proof]
    #[kani::unwind(9)]
    #[kani::stub(parse_probability, stub_parse_probability)]
    fn tok_meaning_pockets() {
        let (a, b) = (any_rank(), any_rank());
        // 'XX'
        let s = [RANK_CH[a as usize], RANK_CH[a as usize]];
        assert!(HandRangeToken::from_str(unsafe { std::str::from_utf8_unchecked(&s) })
            == Ok(HandRangeToken::new(HandRangeTokenKind::SingleRankPair(RankPair::Pocket(rank_of(a))), 1.0)));
        // 'XX+'
        let s = [RANK_CH[a as usize], RANK_CH[a as usize], b'+'];
        assert!(HandRangeToken::from_str(unsafe { std::str::from_utf8_unchecked(&s) })
            == Ok(HandRangeToken::new(HandRangeTokenKind::BottomClosedRankPairRange(RankPair::Pocket(rank_of(a))), 1.0)));
        // 'XX-YY' (X at least as strong as Y)
        kani::assume(a <= b);
        kani::cover!(a < b);
        let s = [RANK_CH[a as usize], RANK_CH[a as usize], b'-', RANK_CH[b as usize], RANK_CH[b as usize]];
        assert!(HandRangeToken::from_str(unsafe { std::str::from_utf8_unchecked(&s) })
            == Ok(HandRangeToken::new(HandRangeTokenKind::DoubleClosedRankPairRange(RankPair::Pocket(rank_of(a)), rank_of(b)), 1.0)));
    }

    #[kani::proof]
    #[kani::unwind(11)]
    #[kani::stub(parse_probability, stub_parse_probability)]
    fn tok_meaning_rank_pairs() {
        let (h, k, e) = (any_rank(), any_rank(), any_rank());
        let suited: bool = kani::any();
        let so = if suited { b's' } else { b'o' };
        let mk = |x: u8, y: u8| if suited { RankPair::Suited(rank_of(x), rank_of(y)) } else { RankPair::Ofsuit(rank_of(x), rank_of(y)) };
        kani::assume(h < k);
        kani::cover!(suited && k < e);
        // 'HKs' / 'HKo'
        let s = [RANK_CH[h as usize], RANK_CH[k as usize], so];
        assert!(HandRangeToken::from_str(unsafe { std::str::from_utf8_unchecked(&s) }) == Ok(HandRangeToken::new(HandRangeTokenKind::SingleRankPair(mk(h, k)), 1.0)));
        // 'HKs+'
        let s = [RANK_CH[h as usize], RANK_CH[k as usize], so, b'+'];
        assert!(HandRangeToken::from_str(unsafe { std::str::from_utf8_unchecked(&s) }) == Ok(HandRangeToken::new(HandRangeTokenKind::BottomClosedRankPairRange(mk(h, k)), 1.0)));
        // 'HKs-HEs'
        kani::assume(k < e);
        let s = [RANK_CH[h as usize], RANK_CH[k as usize], so, b'-', RANK_CH[h as usize], RANK_CH[e as usize], so];
        assert!(HandRangeToken::from_str(unsafe { std::str::from_utf8_unchecked(&s) })
            == Ok(HandRangeToken::new(HandRangeTokenKind::DoubleClosedRankPairRange(mk(h, k), rank_of(e)), 1.0)));
    }

    #[kani::proof]
    #[kani::unwind(9)]
    #[kani::stub(parse_probability, stub_parse_probability)]
    fn tok_meaning_card_pair() {
        let (r1, s1, r2, s2) = (any_rank(), any_suit(), any_rank(), any_suit());
        kani::assume(r1 != r2 || s1 != s2);
        kani::cover!(r1 > r2);
        let s = [RANK_CH[r1 as usize], SUIT_CH[s1 as usize], RANK_CH[r2 as usize], SUIT_CH[s2 as usize]];
        let want = CardPair::new(Card::new(rank_of(r1), suit_of(s1)), Card::new(rank_of(r2), suit_of(s2)));
        assert!(HandRangeToken::from_str(unsafe { std::str::from_utf8_unchecked(&s) }) == Ok(HandRangeToken::new(HandRangeTokenKind::SingleCardPair(want), 1.0)));
    }

    // ---- C05 / C10: ':weight' is carried (0 and 1 exactly; above 1 rejected) ----
    #[kani::proof]
    #[kani::unwind(9)]
    #[kani::stub(parse_probability, stub_parse_probability)]
    fn tok_weight_carried() {
        let a = any_rank();
        let w: u8 = kani::any();
        kani::assume(w == b'0' || w == b'1');
        let s = [RANK_CH[a as usize], RANK_CH[a as usize], b':', w];
        let want = if w == b'0' { 0.0 } else { 1.0 };
        assert!(HandRangeToken::from_str(unsafe { std::str::from_utf8_unchecked(&s) }) == Ok(HandRangeToken::new(HandRangeTokenKind::SingleRankPair(RankPair::Pocket(rank_of(a))), want)));
        // (that a weight above 1 such as ":1.5" is rejected is C10's obligation, not C05's: tok_wf_weighted_pocket)
    }

    // ---- C05: the ':weight' suffix is carried by EVERY token shape (exactly: the value parse_probability gives for
    //      that suffix; ':0' and ':0.5' here -- under the abstraction 0.0 and one symbolic value in [0,1]) ----
    fn with_weight<const N: usize, const M: usize>(body: [u8; N], half: bool) -> ([u8; M], usize, f32) {
        // body + ":0" or ":0.5"; returns the bytes, the length and the weight the parser must store
        let mut s = [0u8; M];
        let mut i = 0;
        while i < N { s[i] = body[i]; i += 1; }
        s[N] = b':'; s[N + 1] = b'0';
        if half { s[N + 2] = b'.'; s[N + 3] = b'5'; }
        let len = if half { N + 4 } else { N + 2 };
        let w = if half { stub_parse_probability(":0.5") } else { 0.0 };
        (s, len, w)
    }

    fn rp_setup() -> (u8, u8, u8, bool, u8) {
        let (h, k, e) = (any_rank(), any_rank(), any_rank());
        let suited: bool = kani::any();
        kani::assume(h < k);
        (h, k, e, suited, if suited { b's' } else { b'o' })
    }
    fn mk_rp(suited: bool, x: u8, y: u8) -> RankPair { if suited { RankPair::Suited(rank_of(x), rank_of(y)) } else { RankPair::Ofsuit(rank_of(x), rank_of(y)) } }

    #[kani::proof]
    #[kani::unwind(9)]
    #[kani::stub(parse_probability, stub_parse_probability)]
    fn tok_weight_single_rank_pair() {
        let (h, k, _e, suited, so) = rp_setup();
        kani::cover!(!suited);
        let (s, n, w) = with_weight::<3, 7>([RANK_CH[h as usize], RANK_CH[k as usize], so], true);
        assert!(HandRangeToken::from_str(unsafe { std::str::from_utf8_unchecked(&s[..n]) }) == Ok(HandRangeToken::new(HandRangeTokenKind::SingleRankPair(mk_rp(suited, h, k)), w)));
    }

    #[kani::proof]
    #[kani::unwind(10)]
    #[kani::stub(parse_probability, stub_parse_probability)]
    fn tok_weight_plus_rank_pair() {
        let (h, k, _e, suited, so) = rp_setup();
        kani::cover!(!suited);
        let (s, n, w) = with_weight::<4, 8>([RANK_CH[h as usize], RANK_CH[k as usize], so, b'+'], true);
        assert!(HandRangeToken::from_str(unsafe { std::str::from_utf8_unchecked(&s[..n]) }) == Ok(HandRangeToken::new(HandRangeTokenKind::BottomClosedRankPairRange(mk_rp(suited, h, k)), w)));
    }

    #[kani::proof]
    #[kani::unwind(13)]
    #[kani::stub(parse_probability, stub_parse_probability)]
    fn tok_weight_span_rank_pair() {
        let (h, k, e, suited, so) = rp_setup();
        kani::assume(k < e);
        kani::cover!(!suited);
        let (hc, kc, ec) = (RANK_CH[h as usize], RANK_CH[k as usize], RANK_CH[e as usize]);
        let (s, n, w) = with_weight::<7, 11>([hc, kc, so, b'-', hc, ec, so], true);
        assert!(HandRangeToken::from_str(unsafe { std::str::from_utf8_unchecked(&s[..n]) }) == Ok(HandRangeToken::new(HandRangeTokenKind::DoubleClosedRankPairRange(mk_rp(suited, h, k), rank_of(e)), w)));
    }

    #[kani::proof]
    #[kani::unwind(9)]
    #[kani::stub(parse_probability, stub_parse_probability)]
    fn tok_weight_plus_pocket() {
        let a = any_rank();
        kani::cover!(a == 12);
        let ac = RANK_CH[a as usize];
        let (s, n, w) = with_weight::<3, 7>([ac, ac, b'+'], true);
        assert!(HandRangeToken::from_str(unsafe { std::str::from_utf8_unchecked(&s[..n]) }) == Ok(HandRangeToken::new(HandRangeTokenKind::BottomClosedRankPairRange(RankPair::Pocket(rank_of(a))), w)));
    }

    #[kani::proof]
    #[kani::unwind(11)]
    #[kani::stub(parse_probability, stub_parse_probability)]
    fn tok_weight_span_pocket() {
        let (a, b) = (any_rank(), any_rank());
        kani::assume(a <= b);
        kani::cover!(a < b);
        let (ac, bc) = (RANK_CH[a as usize], RANK_CH[b as usize]);
        let (s, n, w) = with_weight::<5, 9>([ac, ac, b'-', bc, bc], true);
        assert!(HandRangeToken::from_str(unsafe { std::str::from_utf8_unchecked(&s[..n]) }) == Ok(HandRangeToken::new(HandRangeTokenKind::DoubleClosedRankPairRange(RankPair::Pocket(rank_of(a)), rank_of(b)), w)));
    }

    #[kani::proof]
    #[kani::unwind(10)]
    #[kani::stub(parse_probability, stub_parse_probability)]
    fn tok_weight_card_pair() {
        let (a, b, s1, s2) = (any_rank(), any_rank(), any_suit(), any_suit());
        kani::assume(a != b || s1 != s2);
        kani::cover!(a == b);
        let (s, n, w) = with_weight::<4, 8>([RANK_CH[a as usize], SUIT_CH[s1 as usize], RANK_CH[b as usize], SUIT_CH[s2 as usize]], true);
        assert!(HandRangeToken::from_str(unsafe { std::str::from_utf8_unchecked(&s[..n]) }) == Ok(HandRangeToken::new(HandRangeTokenKind::SingleCardPair(CardPair::new(Card::new(rank_of(a), suit_of(s1)), Card::new(rank_of(b), suit_of(s2)))), w)));
    }

    // ---- C10 / C09 (weight suffix on EVERY shape): for all ranks / suits of each of the seven token shapes and every weight
    //      text ":D", ":D.D", ":D.DD" (D symbolic ASCII digits; the abstraction classes 0, (0,1], 1, above 1 are all reached),
    //      Ok(t) ==> token_wf(t): in particular no shape lets a weight above 1 through.  The total_parse_N harnesses reach
    //      weights above 1 only for bodies of <= N - 4 bytes (":1.5" is 4 bytes, the spans are 5 and 7): these harnesses
    //      close that gap for well-formed bodies of every shape.
    fn wf_weighted<const N: usize, const M: usize>(body: [u8; N]) {
        let mut s = [0u8; M];
        let mut i = 0;
        while i < N { s[i] = body[i]; i += 1; }
        let (d0, d1, d2): (u8, u8, u8) = (kani::any(), kani::any(), kani::any());
        kani::assume(d0 >= b'0' && d0 <= b'9' && d1 >= b'0' && d1 <= b'9' && d2 >= b'0' && d2 <= b'9');
        s[N] = b':'; s[N + 1] = d0; s[N + 2] = b'.'; s[N + 3] = d1; s[N + 4] = d2;
        let form: u8 = kani::any();
        kani::assume(form < 3);
        let len = if form == 0 { N + 2 } else if form == 1 { N + 4 } else { N + 5 };
        kani::cover!(form == 1 && d0 == b'1' && d1 == b'5');
        match HandRangeToken::from_str(unsafe { std::str::from_utf8_unchecked(&s[..len]) }) {
            Ok(t) => { assert!(token_wf(&t)); }
            Err(()) => {}
        }
    }

    #[kani::proof]
    #[kani::unwind(9)]
    #[kani::stub(parse_probability, stub_parse_probability)]
    fn tok_wf_weighted_pocket() {
        let a = any_rank();
        let ac = RANK_CH[a as usize];
        wf_weighted::<2, 7>([ac, ac]);
    }

    #[kani::proof]
    #[kani::unwind(10)]
    #[kani::stub(parse_probability, stub_parse_probability)]
    fn tok_wf_weighted_plus_pocket() {
        let a = any_rank();
        let ac = RANK_CH[a as usize];
        wf_weighted::<3, 8>([ac, ac, b'+']);
    }

    #[kani::proof]
    #[kani::unwind(12)]
    #[kani::stub(parse_probability, stub_parse_probability)]
    fn tok_wf_weighted_span_pocket() {
        let (a, b) = (any_rank(), any_rank());
        let (ac, bc) = (RANK_CH[a as usize], RANK_CH[b as usize]);
        wf_weighted::<5, 10>([ac, ac, b'-', bc, bc]);
    }

    #[kani::proof]
    #[kani::unwind(10)]
    #[kani::stub(parse_probability, stub_parse_probability)]
    fn tok_wf_weighted_rank_pair() {
        let (h, k) = (any_rank(), any_rank());
        let suited: bool = kani::any();
        wf_weighted::<3, 8>([RANK_CH[h as usize], RANK_CH[k as usize], if suited { b's' } else { b'o' }]);
    }

    #[kani::proof]
    #[kani::unwind(11)]
    #[kani::stub(parse_probability, stub_parse_probability)]
    fn tok_wf_weighted_plus_rank_pair() {
        let (h, k) = (any_rank(), any_rank());
        let suited: bool = kani::any();
        wf_weighted::<4, 9>([RANK_CH[h as usize], RANK_CH[k as usize], if suited { b's' } else { b'o' }, b'+']);
    }

    #[kani::proof]
    #[kani::unwind(14)]
    #[kani::stub(parse_probability, stub_parse_probability)]
    fn tok_wf_weighted_span_rank_pair() {
        let (h, k, h2, e) = (any_rank(), any_rank(), any_rank(), any_rank());
        let (so1, so2): (bool, bool) = (kani::any(), kani::any());
        wf_weighted::<7, 12>([RANK_CH[h as usize], RANK_CH[k as usize], if so1 { b's' } else { b'o' }, b'-',
                              RANK_CH[h2 as usize], RANK_CH[e as usize], if so2 { b's' } else { b'o' }]);
    }

    #[kani::proof]
    #[kani::unwind(11)]
    #[kani::stub(parse_probability, stub_parse_probability)]
    fn tok_wf_weighted_card_pair() {
        let (a, b, s1, s2) = (any_rank(), any_rank(), any_suit(), any_suit());
        wf_weighted::<4, 9>([RANK_CH[a as usize], SUIT_CH[s1 as usize], RANK_CH[b as usize], SUIT_CH[s2 as usize]]);
    }

    // ---- C17 / C06 (text of a token): Display writes exactly the notation that the tok_meaning_* harnesses parse back
    //      to the same value (weight 1 is omitted); complete over all ranks / suits / shapes ----
    #[kani::proof]
    #[kani::unwind(9)]
    fn tok_display_pockets() {
        let (a, b) = (any_rank(), any_rank());
        let t = HandRangeToken::new(HandRangeTokenKind::SingleRankPair(RankPair::Pocket(rank_of(a))), 1.0);
        assert!(t.to_string().as_bytes() == &[RANK_CH[a as usize], RANK_CH[a as usize]][..]);
        let t = HandRangeToken::new(HandRangeTokenKind::BottomClosedRankPairRange(RankPair::Pocket(rank_of(a))), 1.0);
        assert!(t.to_string().as_bytes() == &[RANK_CH[a as usize], RANK_CH[a as usize], b'+'][..]);
        kani::assume(a <= b);
        kani::cover!(a < b);
        let t = HandRangeToken::new(HandRangeTokenKind::DoubleClosedRankPairRange(RankPair::Pocket(rank_of(a)), rank_of(b)), 1.0);
        assert!(t.to_string().as_bytes() == &[RANK_CH[a as usize], RANK_CH[a as usize], b'-', RANK_CH[b as usize], RANK_CH[b as usize]][..]);
    }

    #[kani::proof]
    #[kani::unwind(11)]
    fn tok_display_rank_pairs() {
        let (h, k, e) = (any_rank(), any_rank(), any_rank());
        let suited: bool = kani::any();
        let so = if suited { b's' } else { b'o' };
        let mk = |x: u8, y: u8| if suited { RankPair::Suited(rank_of(x), rank_of(y)) } else { RankPair::Ofsuit(rank_of(x), rank_of(y)) };
        kani::assume(h < k);
        kani::cover!(suited && k < e);
        let (hc, kc, ec) = (RANK_CH[h as usize], RANK_CH[k as usize], RANK_CH[e as usize]);
        let t = HandRangeToken::new(HandRangeTokenKind::SingleRankPair(mk(h, k)), 1.0);
        assert!(t.to_string().as_bytes() == &[hc, kc, so][..]);
        let t = HandRangeToken::new(HandRangeTokenKind::BottomClosedRankPairRange(mk(h, k)), 1.0);
        assert!(t.to_string().as_bytes() == &[hc, kc, so, b'+'][..]);
        kani::assume(k < e);
        let t = HandRangeToken::new(HandRangeTokenKind::DoubleClosedRankPairRange(mk(h, k), rank_of(e)), 1.0);
        assert!(t.to_string().as_bytes() == &[hc, kc, so, b'-', hc, ec, so][..]);
    }

    #[kani::proof]
    #[kani::unwind(9)]
    fn tok_display_card_pair() {
        let (a, b, s1, s2) = (any_rank(), any_rank(), any_suit(), any_suit());
        kani::assume(a < b || (a == b && s1 < s2));
        kani::cover!(a == b);
        let t = HandRangeToken::new(HandRangeTokenKind::SingleCardPair(CardPair::new(Card::new(rank_of(a), suit_of(s1)), Card::new(rank_of(b), suit_of(s2)))), 1.0);
        assert!(t.to_string().as_bytes() == &[RANK_CH[a as usize], SUIT_CH[s1 as usize], RANK_CH[b as usize], SUIT_CH[s2 as usize]][..]);
    }
}
