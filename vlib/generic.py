"""Generic plugin: one Verus unit decides one property; failing-input search through the replay crate."""
import os
import re
import time

from . import core
from .core import Violation
from .verus import run_verus, check_canaries, check_allowed, only_added_statements, Undecided, BUILD


def native_search(cmds, seed):
    """cmds: list of replay-crate argument lists ('{seed}' substituted). Returns (witness|None, info)."""
    exe = core.build_replay()
    info = []
    marker = os.path.join(BUILD, 'search_marker.txt')
    for c in cmds:
        args = [x.replace('{seed}', str(seed)).replace('{marker}', marker) for x in c]
        if os.path.exists(marker):
            os.remove(marker)
        p = core.sh([exe] + args, timeout=3600)
        out = p.stdout
        if p.returncode not in (0, 1) and os.path.exists(marker):
            # the process died (e.g. stack overflow abort): the marker names the case that was running
            case = open(marker).read().split()
            return {'replay_args': case, 'expected': 'returns normally; observed: process terminated abnormally (rc=%d) %s' % (p.returncode, p.stderr[-200:].strip())}, info
        tried = re.search(r'SEARCH tried=(\d+)', out)
        info.append({'cmd': ' '.join(args), 'tried': int(tried.group(1)) if tried else None})
        m = re.search(r'^WITNESS (.*?) :: (.*)$', out, re.M)
        if m:
            return {'replay_args': m.group(1).split(), 'expected': m.group(2)}, info
        if p.returncode not in (0, 1):
            raise Undecided('search command failed: %s: %s' % (' '.join(args), (p.stderr or out)[-400:]))
    return None, info


def run(pid, tier, seed, cfg):
    t0 = time.time()
    unit = cfg['unit']
    r = run_verus(unit, compile_bin=False)
    if r.compile_error:
        raise Undecided('unit %s does not compile (construct outside the verified subset, or lost anchor): %s' % (unit, r.compile_error[-800:]))
    bad = check_allowed(r.assumption_scan, cfg['allowed'])
    if bad:
        raise Undecided('unexpected assumption in generated unit: %s' % bad[:3])
    ncan, vac, _ = check_canaries(unit, 'fn')
    if vac:
        raise Undecided('vacuous contract(s): canary verified for %s' % vac[:5])
    if tier == 'thorough':
        n2, vac2, _ = check_canaries(unit, 'loop')
        if vac2:
            raise Undecided('vacuous loop invariant(s): canary verified for %s' % vac2[:5])
        ncan += n2
    rel = cfg.get('relevant', lambda fn: True)
    fns = {k: v for k, v in r.functions.items() if rel(k)}
    if not fns:
        raise Undecided('no obligations generated for %s' % pid)
    failed = sorted(f for f in fns if not fns[f]['success'])
    violations = []
    search_info = None
    # callee contracts this unit ASSUMES (stubs) are proved in their own unit: that unit must still hold on the current
    # code, otherwise the proof above rests on a contract nobody backs.  Whether THIS property is then violated is for
    # the failing-input search to say (the callee unit pins more than this property needs).
    callee_info, callee_problems = [], []
    for cu, callowed in cfg.get('callees', []):
        problem = None
        if cu == 'eval':
            from . import p_eval
            problem = p_eval.holds_problem()
            callee_info.append({'unit': 'eval (+ table checker run)', 'holds': problem is None})
            if problem:
                callee_problems.append('EVAL: %s' % problem)
            continue
        try:
            rc = run_verus(cu, compile_bin=False)
            if rc.compile_error:
                problem = 'does not compile on the current code: ' + rc.compile_error[-300:]
            elif check_allowed(rc.assumption_scan, callowed):
                problem = 'unexpected assumption %s' % check_allowed(rc.assumption_scan, callowed)[:2]
            else:
                cf = sorted(f for f, v in rc.functions.items() if not v['success'])
                if cf:
                    problem = 'obligation(s) failed: %s' % cf
            callee_info.append({'unit': cu, 'functions_checked': len(rc.functions), 'holds': problem is None})
        except Undecided as e:
            problem = str(e)[:300]
            callee_info.append({'unit': cu, 'holds': False})
        if problem:
            callee_problems.append('%s: %s' % (cu.upper(), problem))
    if callee_problems and not failed:
        n = cfg.get('search_n', {}).get(tier)
        cmds = [[x.replace('{n}', str(n)) if n else x for x in c] for c in cfg.get('search', [])]
        w, search_info = native_search(cmds, seed) if cmds else (None, None)
        if w is None:
            raise Undecided('callee contract assumed by unit %s is not re-established (%s); no failing input for %s was found' % (unit, '; '.join(callee_problems), pid))
        violations.append(Violation(pid, 'callee contract assumed by %s not re-established [%s]' % (unit.upper(), callee_problems[0][:140]), '\n'.join(callee_problems), w,
                                    key='callee:' + '+'.join(c.split(':')[0] for c in callee_problems), replay_kind='args'))
    if failed:
        # rlimit / timeout is not a proof failure
        if re.search(r'resource limit|rlimit|timed out', r.stderr, re.I) and not re.search(r'postcondition|precondition|assertion failed|invariant', r.stderr):
            raise Undecided('solver resource limit in %s' % failed)
        n = cfg.get('search_n', {}).get(tier)
        cmds = [[x.replace('{n}', str(n)) if n else x for x in c] for c in cfg.get('search', [])]
        w, search_info = native_search(cmds, seed) if cmds else (None, None)
        detail = '\n'.join(e['detail'] for e in r.errors if e['function'] is None or any(f == e['function'] or f.endswith('::' + e['function']) for f in failed))[:6000]
        obligations = ['%s::%s' % (unit.upper(), f) for f in failed]
        kinds = sorted(set(e['kind'] for e in r.errors if e['function'] and any(f.endswith(e['function']) for f in failed)))
        if w is None and only_added_statements(r, failed):
            raise Undecided('the only undischarged obligations of %s are at statements the uncommitted change added (early return / assertion): they did not exist on the committed tree; no failing input for %s was found' % (obligations, pid))
        if w is None and cfg.get('kinds') and not any(re.search(cfg['kinds'], k) for k in kinds):
            # the failed obligations are of a kind that belongs to a sibling property, and no failing input
            # for THIS property was found
            raise Undecided('obligation(s) %s failed with %s; attributed to a sibling property (no failing input for %s found)' % (obligations, kinds, pid))
        violations.append(Violation(pid, '+'.join(obligations) + ('[' + ';'.join(kinds)[:120] + ']' if kinds else ''), detail, w,
                                    key='+'.join(obligations), replay_kind='args'))
    n_obl = len(fns)
    n_dis = sum(1 for v in fns.values() if v['success'])
    cov = {
        'obligations': n_obl,
        'discharged': n_dis,
        'checker_cmd': 'verus build/%s.rs --output-json --time' % unit,
        'trusted_base': core.TRUSTED_BASE + cfg.get('trusted_extra', []),
        'back_ends': {'verus+z3': len(fns)},
        'unit': core.summarize_unit(r, rel),
        'functions': {k: v for k, v in sorted(fns.items())},
        'canaries': {'inserted': ncan, 'vacuous': 0},
        'assumption_scan': ['%s %s' % (e['kind'], e['item']) for e in r.assumption_scan][:80],
        'stubs (callee contracts assumed here, proved in their own unit)': cfg.get('stubs', []),
        'callee_units_rechecked': callee_info,
        'extracted_items': [{'item': i['item'], 'file': i['file'], 'rules': i.get('rules')} for i in r.items if not i['item'].startswith('const ')],
        'samples': cfg['samples'],
        'failing_input_search': search_info,
        'exhaustive': False,
    }
    if 'extra_cov' in cfg:
        cov.update(cfg['extra_cov'](r))
    return core.finish(pid, tier, seed, t0, violations, cov, cfg['assumptions'])
