"""Kani/CBMC units: harnesses injected into a scratch copy of /repo's working tree (never into /repo).
A loop-free / constant-bounded harness over a full finite domain with unwinding assertions on is a
complete proof of the asserted postconditions; harnesses over bounded strings are labelled bounded."""
import os
import re
import shutil
import subprocess
import tempfile
import time

from . import core
from .core import Violation
from .verus import Undecided, VERIF, REPO
from .generic import native_search


def harness_names(path, prefix):
    src = open(path).read()
    return re.findall(r'#\[kani::proof\][^\n]*\n(?:#\[[^\n]*\]\n)*fn (%s\w*)' % prefix, src)


def run_kani(harness_file, names, flags=(), timeout=1200, pre_inject=None):
    scratch = tempfile.mkdtemp(prefix='espada_kani_')
    try:
        p = subprocess.run(['rsync', '-a', '--exclude', 'target', '--exclude', '.git', REPO.rstrip('/') + '/', scratch + '/'], capture_output=True, text=True)
        if p.returncode != 0:
            raise Undecided('cannot copy /repo: ' + p.stderr[-300:])
        shutil.copy(harness_file, os.path.join(scratch, 'src', 'verif_kani.rs'))
        lib = os.path.join(scratch, 'src', 'lib.rs')
        open(lib, 'a').write('\n#[cfg(kani)]\nmod verif_kani;\n')
        if pre_inject:
            pre_inject(scratch)
        cmd = ['cargo', 'kani', '-j', '16', '--output-format', 'terse'] + list(flags)
        for n in names:
            cmd += ['--harness', n]
        t0 = time.time()
        import signal
        proc = subprocess.Popen(cmd, cwd=scratch, stdout=subprocess.PIPE, stderr=subprocess.PIPE, text=True,
                                env=dict(os.environ, CARGO_NET_OFFLINE='true'), start_new_session=True)
        try:
            so, se = proc.communicate(timeout=timeout)
        except subprocess.TimeoutExpired:
            os.killpg(proc.pid, signal.SIGKILL)   # cargo-kani's cbmc children too
            proc.communicate()
            raise Undecided('cargo kani timed out after %ds' % timeout)
        out = so + '\n' + se
        wall = time.time() - t0
    finally:
        shutil.rmtree(scratch, ignore_errors=True)
    m = re.search(r'Complete - (\d+) successfully verified harnesses, (\d+) failures, (\d+) total', out)
    if not m:
        raise Undecided('kani produced no summary (compile error in the scratch copy / harness no longer matches the API): ' + out[-1500:])
    ok_n, fail_n, total = int(m.group(1)), int(m.group(2)), int(m.group(3))
    failed = re.findall(r'Verification failed for - (?:\w+::)*(\w+)', out)
    checks = [(int(a), int(b)) for a, b in re.findall(r'\*\* (\d+) of (\d+) failed', out)]
    covers = [(int(a), int(b)) for a, b in re.findall(r'\*\* (\d+) of (\d+) cover properties satisfied', out)]
    times = [float(x) for x in re.findall(r'Verification Time: ([\d.]+)s', out)]
    fail_detail = '\n'.join(re.findall(r'Failed Checks:.*(?:\n File:.*)?', out))[:4000]
    unwinding = 'unwinding assertion' in fail_detail
    return {'total': total, 'ok': ok_n, 'failed': failed, 'cbmc_checks': sum(b for a, b in checks),
            'cbmc_checks_failed': sum(a for a, b in checks), 'covers': covers, 'solver_s': round(sum(times), 1),
            'wall_s': round(wall, 1), 'fail_detail': fail_detail, 'unwinding': unwinding, 'raw_tail': out[-3000:]}


CARD = {
    'C13': dict(prefix='c13_', search=[['card-check', 'c13']]),
    'C14': dict(prefix='c14_', search=[['card-check', 'c14']]),
}

CARD_ASSUME = [
    'Kani 0.68 / CBMC 6.11 / CaDiCaL; harness code in /verif/kani/card_harness.rs (postconditions as assertions over kani::any())',
    'complete finite domains: rank code 0..12, suit code 0..3, every char (all Unicode scalar values), every ASCII byte pair; unwinding assertions on',
    'RankRange/SuitRange::new(a, b) is checked for a <= b only (the property quantifies over ordered endpoint pairs; a > b panics in slicing)',
    'C14 hash equality is checked with fxhash::hash64 (the hasher the crate uses); derived Hash feeds the two fields in order',
    'Rust core/alloc library code (fmt, String, Vec, slice) is verified as compiled by Kani, not trusted by contract',
]


def run_card(pid, tier, seed):
    t0 = time.time()
    cfg = CARD[pid]
    hf = os.path.join(VERIF, 'kani', 'card_harness.rs')
    names = harness_names(hf, cfg['prefix'])
    if not names:
        raise Undecided('no harnesses for ' + pid)
    r = run_kani(hf, names, timeout=2400)
    if r['total'] != len(names):
        raise Undecided('kani ran %d harnesses, expected %d' % (r['total'], len(names)))
    if not r['failed']:
        for a, b in r['covers']:
            if a != b:
                raise Undecided('vacuous harness: a kani::cover! is unsatisfiable (assumptions exclude everything)')
    violations = []
    info = None
    if r['failed']:
        if r['unwinding'] and r['cbmc_checks_failed'] == len(r['failed']):
            raise Undecided('only unwinding assertions failed in %s: bound too small for the current code, not a property failure' % r['failed'])
        w, info = native_search(cfg['search'], seed)
        if w is None:
            # the native mirror enumerates the same finite domain completely
            raise Undecided('harness(es) %s failed but the complete native enumeration of the same domain finds no failing input: %s' % (r['failed'], r['fail_detail'][:300]))
        violations.append(Violation(pid, '+'.join('CARD::' + f for f in r['failed']), r['fail_detail'] + '\n' + r['raw_tail'], w,
                                    key='+'.join(sorted(r['failed'])), replay_kind='args'))
    cov = {
        'obligations': r['cbmc_checks'],
        'discharged': r['cbmc_checks'] - r['cbmc_checks_failed'],
        'checker_cmd': 'cargo kani -j 16 --output-format terse --harness <%d harnesses %s*> (scratch copy of /repo + kani/card_harness.rs)' % (len(names), cfg['prefix']),
        'trusted_base': ['Kani 0.68 + CBMC 6.11 + CaDiCaL', 'rustc MIR -> goto translation of Kani'],
        'back_ends': {'kani+cbmc (complete finite domain)': len(names)},
        'harnesses': names,
        'harnesses_verified': r['ok'],
        'cover_properties': r['covers'],
        'solver_s': r['solver_s'],
        'kani_wall_s': r['wall_s'],
        'bounded': [],
        'functions_under_check': ['u64::from(&Card)', 'Card::from(&u64)', 'u8::from(&Rank)', 'u8::from(&Suit)', 'char::from(&Rank)', 'char::from(&Suit)',
                                  'Rank::try_from(char)', 'Suit::try_from(char)', 'Rank::next', 'Rank::prev', 'derived Ord/Eq on Rank, Suit, Card',
                                  'Display/FromStr for Card', 'RankRange::{new,inclusive,all,into_iter}', 'SuitRange::{new,inclusive,all,into_iter}'] if pid == 'C13' else
                                 ['CardPair::new', 'Index<usize> for CardPair', 'derived Eq/Hash on CardPair', 'Display/FromStr for CardPair'],
        'samples': [{'harness': n} for n in names[:4]],
        'failing_input_search': info,
        'exhaustive': True,
    }
    return core.finish(pid, tier, seed, t0, violations, cov, CARD_ASSUME)


# ---------------------------------------------------------------------------------------------------
# TOKEN unit (strings): HandRangeToken::from_str with every Regex::new(r"...") call site replaced, in the
# scratch copy only, by a DFA generated from that literal; harness module appended to hand_range_token.rs
PARSE_PROBABILITY_FP = '8dc4433ad2061579'


def token_injector(scratch):
    from extract import dfa
    p = os.path.join(scratch, 'src', 'hand_range', 'hand_range_token.rs')
    src = open(p).read()
    try:
        new, pats = dfa.rewrite_source(src)
        dfas = [dfa.compile_dfa(x) for x in pats]
        ncases = dfa.selftest(pats)
    except Exception as e:
        raise Undecided('regex literals of the current source are outside the DFA generator\'s subset: %s' % e)
    if len(pats) == 0:
        raise Undecided('no Regex::new(r"...") call sites found')
    # parse_probability is replaced by an abstraction in the harnesses (f32::from_str on symbolic text is out of reach
    # for CBMC); the abstraction was argued for exactly this text, so the function is pinned by a fingerprint:
    # a change voids the assumption and hands the decision to the failing-input search (never an alarm by itself)
    try:
        from extract import rsx
        fp = rsx.sha(rsx.norm_fp(rsx.Source(p, src).item('fn', 'parse_probability')))
    except Exception as e:
        raise Undecided('lost anchor: fn parse_probability not found in hand_range_token.rs (%s)' % e)
    if fp != PARSE_PROBABILITY_FP:
        raise Undecided('lost anchor: assumed function parse_probability changed (fingerprint %s, expected %s): its abstraction in the Kani harnesses is no longer backed' % (fp, PARSE_PROBABILITY_FP))
    new += open(os.path.join(VERIF, 'kani', 'token_harness.rs')).read()
    open(p, 'w').write(new)
    open(os.path.join(scratch, 'src', 'verif_dfa.rs'), 'w').write(dfa.emit_rust(dfas))
    open(os.path.join(scratch, 'src', 'lib.rs'), 'a').write('\n#[cfg(kani)]\nmod verif_dfa;\n')
    token_injector.info = {'regex_literals': pats, 'dfa_vs_python_re_cases': ncases}


def run_token(names, timeout):
    hf = os.path.join(VERIF, 'kani', 'card_harness.rs')   # also injected (harmless); token harnesses come from the injector
    r = run_kani(hf, names, flags=('-Z', 'stubbing'), timeout=timeout, pre_inject=token_injector)
    r['names'] = names
    r['dfa'] = getattr(token_injector, 'info', None)
    return r


def run_card_names(names, timeout=2400):
    hf = os.path.join(VERIF, 'kani', 'card_harness.rs')
    r = run_kani(hf, names, timeout=timeout)
    r['names'] = names
    return r
