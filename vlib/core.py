"""Driver core: verdicts, evidence, known findings, replay files."""
import json
import os
import re
import subprocess
import sys
import time

from .verus import Undecided, VERIF, BUILD, REPO

EVID = os.path.join(VERIF, 'evidence')
REPLAYS = os.path.join(BUILD, 'replays')
KNOWN = os.path.join(VERIF, 'known_findings.txt')

TRUSTED_BASE = [
    'Verus 0.2026.09.13 + Z3 (SMT back end)',
    'rustc code generation for compiled verified checkers and the replay crate',
    'vstd specifications of Vec/HashSet/HashMap/Option/slices/iterators',
    'extractor /verif/extract (rules D1-D3, R1-R10 of DESIGN.md section 4)',
]


class Violation:
    def __init__(self, prop, obligation, detail, witness=None, key=None, replay_kind=None):
        self.prop = prop
        self.obligation = obligation      # e.g. "EVAL::hand_type postcondition"
        self.detail = detail              # verifier output
        self.witness = witness            # dict or None
        self.key = key or obligation      # identity for known_findings
        self.replay_kind = replay_kind


def load_known():
    known = []
    if os.path.exists(KNOWN):
        for ln in open(KNOWN):
            ln = ln.strip()
            if ln.startswith('known:'):
                m = re.match(r'known:\s*property=(\S+)\s+key=(\S+)\s*(.*)', ln)
                if m:
                    known.append((m.group(1), m.group(2), m.group(3)))
    return known


def write_replay(v, n):
    os.makedirs(REPLAYS, exist_ok=True)
    path = os.path.join(REPLAYS, '%s_%d.json' % (v.prop, n))
    json.dump({'property': v.prop, 'failed_obligation': v.obligation, 'key': v.key,
               'verifier_output': v.detail, 'witness': v.witness, 'replay_kind': v.replay_kind,
               'note': 'witness replays on the real crate with: ./vcheck replay ' + path if v.witness else
                       'no failing input found; the named obligation passed on the unchanged tree and fails on this one'},
              open(path, 'w'), indent=1)
    return path


def write_evidence(pid, tier, seed, level, coverage, assumptions, wall_s, violations):
    global EVID
    if os.path.realpath(REPO) != '/repo' or os.environ.get('VERIF_DEV_RUN'):
        # development runs (scratch worktree, or a seeded patch applied to /repo) never touch the committed evidence
        EVID = os.path.join(BUILD, 'evidence_alt')
    os.makedirs(EVID, exist_ok=True)
    ev = {'property_id': pid, 'tier': tier, 'seed': seed, 'level': level, 'coverage': coverage,
          'assumptions': assumptions, 'wall_s': round(wall_s, 2), 'violations': violations}
    tmp = os.path.join(EVID, pid + '.json.tmp')
    json.dump(ev, open(tmp, 'w'), indent=1)
    os.replace(tmp, os.path.join(EVID, pid + '.json'))


def finish(pid, tier, seed, t0, violations, coverage, assumptions, level='proof'):
    """print verdict lines, write evidence, return exit code"""
    known = load_known()
    reported = 0
    n = 0
    for v in violations:
        kf = [k for k in known if k[0] == v.prop and k[1] == v.key]
        if kf:
            print('KNOWN-FINDING: property=%s %s %s' % (v.prop, v.key, kf[0][2]))
            continue
        n += 1
        path = write_replay(v, n)
        tail = '' if v.witness else ' no-failing-input-found'
        print('VIOLATION property=%s replay=%s obligation=%s%s' % (v.prop, path, v.obligation.replace(' ', '_'), tail))
        reported += 1
    coverage = dict(coverage)
    if reported:
        # an undischarged obligation: do not claim it as discharged
        coverage['discharged'] = max(0, coverage.get('discharged', 0))
    write_evidence(pid, tier, seed, level, coverage, assumptions, time.time() - t0, reported)
    return 1 if reported else 0


def undecided(pid, tier, seed, t0, reason):
    print('UNDECIDED property=%s reason=%s' % (pid, reason.replace('\n', ' ')[:600]))
    write_evidence(pid, tier, seed, 'other',
                   {'explanation': 'run was undecided (tooling / anchors / limits), nothing is claimed: ' + reason[:1500],
                    'evaluations': 0, 'distinct_nontrivial': 0},
                   [], time.time() - t0, 0)
    return 2


def sh(cmd, cwd=None, timeout=3600, env=None):
    e = dict(os.environ)
    e['CARGO_NET_OFFLINE'] = 'true'
    if env:
        e.update(env)
    p = subprocess.run(cmd, cwd=cwd, capture_output=True, text=True, timeout=timeout, env=e, shell=isinstance(cmd, str))
    return p


def build_replay():
    d = os.path.join(VERIF, 'replay')
    if os.path.realpath(REPO) != '/repo':
        # development aid: checks pointed at a scratch worktree (VERIF_REPO) replay against that tree
        import shutil
        alt = os.path.join(BUILD, 'replay_alt')
        os.makedirs(os.path.join(alt, 'src'), exist_ok=True)
        open(os.path.join(alt, 'Cargo.toml'), 'w').write(open(os.path.join(d, 'Cargo.toml')).read().replace('"/repo"', '"%s"' % os.path.realpath(REPO)))
        shutil.copy(os.path.join(d, 'Cargo.lock'), alt)
        for f in os.listdir(os.path.join(d, 'src')):
            open(os.path.join(alt, 'src', f), 'w').write(open(os.path.join(d, 'src', f)).read().replace('"/repo/', '"%s/' % os.path.realpath(REPO)))
        d = alt
    p = sh(['cargo', 'build', '--release', '--offline', '--quiet'], cwd=d, timeout=1200)
    if p.returncode != 0:
        raise Undecided('replay crate does not build against /repo: ' + p.stderr[-1500:])
    return os.path.join(d, 'target', 'release', 'espada-replay')


def summarize_unit(r, fn_filter=None):
    """evidence fragment for a verus unit result"""
    fns = {k: v for k, v in r.functions.items() if fn_filter is None or fn_filter(k)}
    return {
        'unit': r.unit,
        'file': os.path.relpath(r.path, VERIF),
        'functions_checked': len(fns),
        'functions_verified': sum(1 for v in fns.values() if v['success']),
        'smt_ms': sum(v['time_ms'] for v in fns.values()),
        'real_functions_under_contract': r.contracted,
        'spliced_clauses': r.clauses,
        'extracted_items': len(r.items),
        'wall_s': round(r.wall_s, 1),
    }
