"""Per-property configuration for the generic Verus-unit plugin."""

DERIVE = '#[derive(PartialEq)] on Rank/Suit/Card/CardPair is structural equality (PartialEqSpecImpl axioms in the unit)'

CONFIG = {
    'C03': dict(
        unit='showdown',
        allowed=[r'^external_body pub fn from', r'^assume_specification pub assume_specification<T> \[<\[T\]>',
                 r'^uninterp spec pub uninterp spec fn (class7|tables_ok)'],
        stubs=['MadeHand::from  (contracts/made_hand_from.vc, proved in unit EVAL / C01)'],
        assumptions=[
            DERIVE,
            'callee contract MadeHand::from (C01) is assumed here and proved in unit EVAL',
            'assume_specification for <[T]>::contains: true iff some element equals the argument',
            'R7: HashSet::with_capacity_and_hasher(n, FxBuildHasher::default()) replaced by HashSet::<usize>::with_capacity(n); the proof uses only vstd\'s abstract set semantics, valid for any deterministic hasher',
            'R1: Enumerate yields (k, item_k); R11: x.into() is T::from(x); R6: debug_assert! becomes a proof obligation',
            'preconditions: board cards pairwise distinct, each pair\'s two cards differ (the weakest condition for the evaluator\'s contract); winner_len requires <= 255 players (u8 counter)',
        ],
        search=[['showdown-search', '{seed}', '{n}']],
        search_n={'quick': 300000, 'thorough': 3000000},
        samples=[
            {'obligation': 'Showdown::new postcondition', 'clause': 'r is None <==> collides(players@, board@)'},
            {'obligation': 'Showdown::new postcondition', 'clause': 'r matches Some(sd) ==> is_showdown_of(sd, players@, board@, probability)  [whole view: order, hole cards, board, hand == class7, win <==> no other player is stronger]'},
            {'obligation': 'Showdown::winner_len postcondition', 'clause': 'r as int == win_count(self.players@)'},
            {'obligation': 'lemma_some_winner', 'clause': 'is_showdown_of(sd, ..) && players.len() >= 1 ==> win_count(sd.players@) >= 1'},
        ],
    ),
}
