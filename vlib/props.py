"""Per-property configuration for the generic Verus-unit plugin."""

DERIVE_ALLOWED = r'^Partial(Eq|Ord)SpecImpl for impl vstd::std_specs::cmp::Partial(Eq|Ord)SpecImpl for (Rank|Suit|Card|CardPair|RankPair|MadeHand)$'
DERIVE = '#[derive(PartialEq)] on Rank/Suit/Card/CardPair is structural equality (PartialEqSpecImpl axioms in the unit)'

CONFIG = {
    'C03': dict(
        unit='showdown',
        allowed=[DERIVE_ALLOWED, r'^external_body pub fn from', r'^assume_specification pub assume_specification<T> \[<\[T\]>',
                 r'^uninterp spec pub uninterp spec fn (class7|tables_ok)'],
        stubs=['MadeHand::from  (contracts/made_hand_from.vc, proved in unit EVAL / C01)'],
        callees=[('eval', None)],
        assumptions=[
            DERIVE,
            'callee contract MadeHand::from (C01) is assumed here and proved in unit EVAL',
            'assume_specification for <[T]>::contains: true iff some element equals the argument',
            'R7: HashSet::with_capacity_and_hasher(n, FxBuildHasher::default()) replaced by HashSet::<usize>::with_capacity(n); the proof uses only vstd\'s abstract set semantics, valid for any deterministic hasher',
            'R1: Enumerate yields (k, item_k); R11: x.into() is T::from(x); R6: debug_assert! becomes a proof obligation',
            'preconditions: board cards pairwise distinct, each pair\'s two cards differ (the weakest condition for the evaluator\'s contract); winner_len requires <= 255 players (u8 counter)',
        ],
        search=[['showdown-search', '{seed}', '{n}']],
        search_n={'quick': 300000, 'thorough': 3000000},
        samples=[
            {'obligation': 'Showdown::new postcondition', 'clause': 'r is None <==> collides(players@, board@)'},
            {'obligation': 'Showdown::new postcondition', 'clause': 'r matches Some(sd) ==> is_showdown_of(sd, players@, board@, probability)  [whole view: order, hole cards, board, hand == class7, win <==> no other player is stronger]'},
            {'obligation': 'Showdown::winner_len postcondition', 'clause': 'r as int == win_count(self.players@)'},
            {'obligation': 'lemma_some_winner', 'clause': 'is_showdown_of(sd, ..) && players.len() >= 1 ==> win_count(sd.players@) >= 1'},
        ],
    ),

}

ITER_ALLOWED = [DERIVE_ALLOWED, r'^external_body pub fn (new|f32_mul|into_iter|verif_clone_board|verif_clone_players)', r'^assume_specification pub assume_specification<T, A', r'^external fn fmt|^external impl|verifier::external', r'axiom_cardpair_key_model', r'^assume_specification pub assume_specification<T> \[<\[T\]>',
                r'^uninterp spec pub uninterp spec fn (class7|tables_ok|f32_mul_spec|unit_interval)', r'axiom_card_key_model', r'axiom_unit_interval_(mul|one)']
ITER_ASSUME = [
    DERIVE,
    'Card key model: derived Hash/Eq of Card agree (broadcast axiom), so vstd set semantics apply to HashSet<Card>',
    'callee contract Showdown::new (C03) assumed here, proved in unit SHOWDOWN -- which this check re-runs (callee_units_rechecked); if it no longer holds, the failing-input search of this property decides',
    'assume_specification for <[T]>::fill: every element becomes the value',
    'R7: HashSet<Card, FxBuildHasher> replaced by HashSet<Card> (abstract set semantics hold for any deterministic hasher)',
    'R1 enumerate, R2/R10: f32 `*=` routed through f32_mul, an uninterpreted deterministic function (floats are NOT treated as reals)',
    'R8: Iterator::next re-hosted as an inherent method so that it can carry `requires wf(self)`',
    'the iterator constructor FlopExhaustiveEvaluatorIterator::new is VERIFIED (deck = the 49 cards not on the flop in card-code order, entries = a duplicate-free listing of each range, wf()); assumed inside it: RankRange/SuitRange::into_iter yield the contiguous runs (Kani c13_rank_range*, c13_suit_range), <[T; N]>::try_from(Vec) succeeds iff the length is N (assume_specification; try_into() is spelled as the try_from it calls), precondition: fewer than 2^30 players (usize arithmetic of the capacity hint)',
    'FlopExhaustiveEvaluator::new is verified (default scope (0,1)..(48,49), fields from the arguments) with only its two std clone() calls assumed to copy their argument (wrappers verif_clone_board / verif_clone_players: derived Clone is structural)',
    'legal(c) is phrased as the code\'s materialisation test; lemma_legal_distinct (proved, Verus) shows it is exactly "all 5+2n cards of the deal are pairwise different"',
    'exactly-once (proved, Verus): lemma_succ_rank: one step raises cur_rank = position_index * prod(lens) + mixed_radix(idx) by exactly 1; lemma_cur_rank_inj: cur_rank is injective on valid cursors; lemma_orbit_covers: every valid cursor whose rank lies in [rank(start), rank(start)+k) is the (rank difference)-th element of the orbit. The composition across successive next() calls is mechanised too: the verified clients verif_drain / verif_run (specs/drain_spec.rs; proof scaffolding, not code of the crate) call the real into_iter() and next() until None and are checked against those contracts only; verif_run ensures run_is_enumeration: the output is, in enumeration order and each exactly once, the showdown of every legal deal whose board position lies in [from, to), and nothing else',
]
ITER_SAMPLES = [
    {'obligation': 'FlopExhaustiveEvaluatorIterator::next postcondition', 'clause': 'next_post(*old(self), *final(self), res): Some(sd) ==> exists k. skipped(g,a,k) && legal(adv(a,k)) && is_showdown_of(sd, combos_at, board_at, prob_at) && cursor == succ(adv(a,k)); None ==> some range empty or exists k. skipped(g,a,k) && adv(a,k) at the scope end'},
    {'obligation': 'next: main loop decreases', 'clause': '48 - turn, 49 - river, radix_prod(lens) - radix_val(idx, lens)  (lexicographic)'},
    {'obligation': 'next: built-in', 'clause': 'no u8/usize overflow, every index in bounds, every unwrap on Some'},
    {'obligation': 'lemma_legal_distinct', 'clause': 'game_ok(g) && cur_ok(g, c) ==> (legal(g, c) <==> distinct_cards(deal_cards(g, c)))'},
    {'obligation': 'lemma_succ_rank', 'clause': 'cur_rank(succ(c, lens), lens) == cur_rank(c, lens) + 1'},
    {'obligation': 'lemma_orbit_covers', 'clause': 'skipped_or_visited(g, a, k, tt, rt) && cur_ok(g, q) && rank(a) <= rank(q) < rank(a) + k ==> q == adv(a, lens, rank(q) - rank(a))'},
]

CONFIG['C02'] = dict(unit='iter', allowed=ITER_ALLOWED, assumptions=ITER_ASSUME, samples=ITER_SAMPLES, callees=[('showdown', CONFIG['C03']['allowed'])],
    stubs=['Showdown::new (contracts/showdown_new.vc, proved in unit SHOWDOWN / C03)'],
    kinds=r'postcondition|invariant|assertion',
    search=[['iter-search', '{seed}', '{n}', '{marker}', 'c02']], search_n={'quick': 240, 'thorough': 2400})
CONFIG['C04'] = dict(unit='iter', allowed=ITER_ALLOWED, assumptions=ITER_ASSUME, samples=ITER_SAMPLES, callees=[('showdown', CONFIG['C03']['allowed'])],
    stubs=['Showdown::new (contracts/showdown_new.vc, proved in unit SHOWDOWN / C03)'],
    kinds=r'postcondition|invariant|assertion',
    search=[['iter-search', '{seed}', '{n}', '{marker}', 'c04']], search_n={'quick': 240, 'thorough': 2400})
CONFIG['C08'] = dict(unit='iter', allowed=ITER_ALLOWED, assumptions=ITER_ASSUME, samples=ITER_SAMPLES, callees=[('showdown', CONFIG['C03']['allowed'])],
    stubs=['Showdown::new (contracts/showdown_new.vc, proved in unit SHOWDOWN / C03)'],
    kinds=r'overflow|precondition|decreases|termination|recursion',
    search=[['iter-search', '{seed}', '{n}', '{marker}', 'c08'], ['c08big-search']], search_n={'quick': 240, 'thorough': 2400})

C16_CFG = dict(unit='scopes',
    allowed=[DERIVE_ALLOWED, r'^external_body pub fn raw_cut'],
    assumptions=[
        'raw_cut (the f32 sqrt/floor/%/ceil formula) is external_body with NO postcondition: the tiling theorem holds for any pair of u8 it returns; floats are not modelled at all',
        'raw_cut\'s own freedom from u8 overflow/underflow (48 - turn_to, + turn_to + 1) depends on float behaviour and is NOT checked',
        'precondition count >= 1 (the property\'s quantifier)',
        'that a tiling scope list makes the per-thread results add up to the single-threaded result is C04 (chained scopes reproduce the full run)',
    ],
    samples=[{'obligation': 'calculate_scopes postcondition', 'clause': 'tiles(r@, count): len == count, first.from == (0,1), last.to == (48,49), every from/to a valid position or the terminal, from <=lex to, scope[k+1].from == scope[k].to'}],
    search=[['scopes-search', '{seed}', '{n}']], search_n={'quick': 20000, 'thorough': 60000})

RANGE_ALLOWED = [DERIVE_ALLOWED, r'^external_body pub fn (into_iter|f32_eq)', r'^uninterp spec pub uninterp spec fn f32_eq_spec', r'axiom_pair_key_models']
CONFIG['C12'] = dict(unit='range', allowed=RANGE_ALLOWED, callees=[('token', [DERIVE_ALLOWED, r'^external_body pub fn into_iter'])],
    stubs=['RankPair::into_iter (contracts/rankpair_into_iter.vc: the 6/4/12 combos, proved on the real body in unit TOKEN)',
           'RankRange::into_iter (contiguous run of ranks; proved for all ordered endpoint pairs by Kani harness c13_rank_range)'],
    assumptions=[
        DERIVE,
        'key models: derived Hash/Eq of CardPair and RankPair agree (broadcast axiom), so vstd map semantics apply to the two HashMaps',
        'derive(PartialOrd) on Card is the order of card codes (PartialOrdSpecImpl axiom; proved for the real derived impl by Kani harness c13_order_next_prev)',
        'R16: `==` on f32 routed through f32_eq, an uninterpreted deterministic relation: "same weight" means IEEE-equal to the first combo\'s weight (NaN weights never form a rank pair); floats are not modelled',
        'R7: HashMap<_, f32, FxBuildHasher> replaced by HashMap<_, f32>; R14: .into_iter().all(closure) as a short-circuit loop; R4: is_some_and as match; R17: by-value iteration of the rank-pair map as .iter()',
        'combos_seq (the 6/4/12 listed combos) equals the first-principles suit enumeration in_rank_pair: lemma_combos_pocket/suited/ofsuit (proved, Verus)',
    ],
    samples=[
        {'obligation': 'HandRange::rank_pairs postcondition', 'clause': 'is_rank_pairs_of(res@, self.0@): res contains rp <==> valid_rp(rp) && every combo of rp is present with a weight f32-equal to the first one; res[rp] is that weight'},
        {'obligation': 'HandRange::orphan_card_pairs postcondition', 'clause': 'exists r. is_rank_pairs_of(r, m) && is_orphans_of(res@, r, m): res contains cp <==> m contains cp && no reported rank pair lists cp; weights unchanged'},
        {'obligation': 'lemma_partition', 'clause': 'the two views cover every combo of the range exactly once'},
    ],
    search=[['c12-search', '{seed}', '{n}']], search_n={'quick': 300000, 'thorough': 3000000})


# ---------------------------------------------------------------------------------------------------
# multi-part properties
from . import multi

EVAL_ALLOWED = [DERIVE_ALLOWED, r'^external_body pub const (REF_|AS_)']


def _v(unit, allowed, relevant=lambda f: True):
    return lambda tier: multi.verus_part(unit, allowed, relevant, tier)


MULTI = {}
MULTI['C11'] = dict(
    parts=[_v('eval', EVAL_ALLOWED, lambda f: f != 'MadeHand::hand_type'),
           _v('showdown', CONFIG['C03']['allowed']),
           _v('iter', ITER_ALLOWED)],
    assumptions=[
        'L11a (Verus, unit EVAL): class7(relabel(cards, p)) == class7(cards) for every suit permutation p, and class7 is invariant under swapping two positions; with C01\'s contract the real evaluator is suit- and order-blind',
        'L11a\' (Verus, unit EVAL, lemma_deal_relabel): one relabelled deal has the same strength for every player although the seven cards may reach the evaluator in another order -- CardPair::new re-canonicalises the two hole cards and the deck order of turn and river within a rank changes, so positions (0,1) and/or (5,6) are exchanged; this is the hypothesis strengths_follow of L11b for pi = identity',
        'L11b (Verus, unit SHOWDOWN): winner flags are determined by the strengths alone and follow the players under any reordering (lemma_flags_follow over C03\'s postcondition); lemma_some_winner + winner_len == number of flags: the k winners\' shares of 1/k are k in number',
        'L11c\' (Verus, unit SHOWDOWN, lemma_hit_follows): inside one showdown, under strengths_follow, player i of the second showdown is one of exactly k winners iff player pi(i) of the first is (lemma_flags_follow + lemma_count_perm: the number of flags is invariant under re-indexing the players; lemma_count_is_win_count ties it to win_count / winner_len)',
        'L11e (Verus, unit SHOWDOWN, lemma_tally_rearranged): the counting step -- for two runs of equal length and an INJECTIVE map phi from the showdowns of the first to those of the second along which "player p1 / p2 is one of exactly k winners" agrees, the tallies agree (tally = number of showdowns of the run in which the player is one of exactly k winners); induction removing phi(n-1) from the second run (lemma_tally_remove)',
        'L11d NOT mechanised (the one remaining paper step): that such a phi exists for the two real runs -- suit relabelling and player reordering carry the set of legal deals of C02\'s characterisation one-to-one onto the legal deals of the relabelled / reordered evaluator (the deck order changes within a rank and the range listings are permuted, so positions are permuted), and both runs list every legal deal exactly once (C02), hence have equal length',
        'the tallies themselves are computed by the caller (README / examples), not by the crate; 1/k shares are floating-point in the examples and their sum is not modelled',
    ] + ITER_ASSUME[:3],
    samples=[
        {'obligation': 'lemma_class7_relabel', 'clause': 'is_perm(p, q) && cards.len() == 7 ==> class7(relabel(cards, p)) == class7(cards)'},
        {'obligation': 'lemma_class7_swap', 'clause': 'class7(cards.update(i, cards[j]).update(j, cards[i])) == class7(cards)'},
        {'obligation': 'lemma_deal_relabel', 'clause': 'is_perm(p, q) ==> class7(relabelled seven cards, hole cards and/or turn,river exchanged) == class7(h0, h1, f0, f1, f2, t, r)'},
        {'obligation': 'lemma_tally_rearranged', 'clause': 'o1.len() == o2.len() && phi injective into o2 && forall i. hit(o2[phi(i)], p2, k) == hit(o1[i], p1, k) ==> tally(o2, p2, k) == tally(o1, p1, k)'},
        {'obligation': 'lemma_hit_follows', 'clause': 'is_showdown_of(sd1, ..) && is_showdown_of(sd2, ..) && strengths_follow(.., pi, inv) ==> hit(flags_of(sd2), i, k) == hit(flags_of(sd1), pi(i), k)'},
        {'obligation': 'lemma_flags_follow', 'clause': 'is_showdown_of(sd1, ..) && is_showdown_of(sd2, ..) && strengths_follow(.., pi, inv) ==> forall i. sd2.players[i].win == sd1.players[pi(i)].win'},
    ],
    not_decided=['existence of the one-to-one correspondence between the two enumerations (L11d) is argued on paper; given it, equality of the tallies is mechanised (L11e)'],
    search=[['c11-search', '{seed}', '{n}']], search_n={'quick': 400, 'thorough': 4000})


# failing-input searches of properties whose plugins live elsewhere (used by vcheck's fallback)
EXTRA_SEARCH = {
    # first-principles oracle (best of the 21 five-card sub-hands, closed-form numbering) over every rank multiset in several
    # suitings plus random hands; used only when the EVAL unit cannot be re-established on the current code
    'C01': dict(search=[['eval-search', '{seed}', '{n}', 'c01']], search_n={'quick': 200000, 'thorough': 3000000}),
    'C07': dict(search=[['eval-search', '{seed}', '{n}', 'c07']], search_n={'quick': 200000, 'thorough': 3000000}),
    'C13': dict(search=[['card-check', 'c13']]),
    'C14': dict(search=[['card-check', 'c14']]),
}


# ---------------------------------------------------------------------------------------------------
# C05 / C09 / C10: range notation (Verus for token values / ranges / iterator, Kani for strings)
from . import p_kani
import re

TOKEN_ALLOWED = [DERIVE_ALLOWED, r'^external_body pub fn into_iter']
TOK_MEANING = ['tok_meaning_pockets', 'tok_meaning_rank_pairs', 'tok_meaning_card_pair', 'tok_weight_carried', 'tok_weight_single_rank_pair', 'tok_weight_plus_rank_pair', 'tok_weight_span_rank_pair', 'tok_weight_plus_pocket', 'tok_weight_span_pocket', 'tok_weight_card_pair', 'tok_ok_reachable']
TOK_WEIGHTED = ['tok_wf_weighted_pocket', 'tok_wf_weighted_plus_pocket', 'tok_wf_weighted_span_pocket', 'tok_wf_weighted_rank_pair', 'tok_wf_weighted_plus_rank_pair', 'tok_wf_weighted_span_rank_pair', 'tok_wf_weighted_card_pair']
TOK_TOTAL_Q = ['tok_total_parse_6', 'tok_total_parse_6_multibyte', 'tok_total_parse_9', 'tok_total_parse_9_multibyte', 'tok_ok_reachable']
TOK_TOTAL_T = TOK_TOTAL_Q + ['tok_total_parse_12', 'tok_total_parse_12_multibyte']


def _k_token(name, names_q, names_t=None, bounded=None, not_mine=None):
    """not_mine: regex over the text of a failed assertion that belongs to ANOTHER property (total_parse states kind_wf
    and weight_unit as two obligations; C09 owns the first only): a harness whose failed checks are all of that kind
    does not count as failed for this property -- the owning property's check reports it"""
    def part(tier):
        names = names_t if (tier == 'thorough' and names_t) else names_q
        if not names:
            return None          # thorough-only part
        def runner():
            r = p_kani.run_token(names, 3600 if tier == 'quick' else 14400)
            r['bounded'] = bounded or []
            if not_mine and r['failed']:
                lines = [l for l in r['fail_detail'].splitlines() if l.startswith('Failed Checks:')]
                if lines and all(re.search(not_mine, l) for l in lines):
                    r['bounded'] = r['bounded'] + ['obligations of another property failed and are not counted here (%s): %s' % (not_mine, ', '.join(r['failed']))]
                    r['cbmc_checks'] -= r['cbmc_checks_failed']
                    r['cbmc_checks_failed'] = 0
                    r['failed'] = []
            return r
        return multi.kani_part(name, runner)
    return part


def _k_card(name, names, bounded=None):
    def part(tier):
        def runner():
            r = p_kani.run_card_names(names, 2400)
            r['bounded'] = bounded or []
            return r
        return multi.kani_part(name, runner)
    return part


STR_BOUND_Q = 'strings: every ASCII string of <= 9 bytes, and every such string with the two-byte character "é" at any offset (quick); <= 12 bytes (thorough). Beyond the bound only longer weight digit runs and longer ill-formed texts remain; for C10 every token shape (all ranks / suits) with weight texts :D, :D.D, :D.DD is covered separately by the tok_wf_weighted_* harnesses.'
TOKEN_ASSUME = [
    'Kani harnesses run on a scratch copy in which every `Regex::new(r"...")` call site of the CURRENT source is replaced by a DFA generated from that literal (extract/dfa.py; cross-checked against Python\'s re on ~778k strings per run) -- regex::Regex itself is not verified',
    'parse_probability is stubbed by an OVER-approximation of a correctly rounded f32::from_str on the weight grammar [01](\\.[0-9]+)?: "0"/"0.00" -> 0.0; "0.<nonzero>" -> any f32 in [0,1] (symbolic, fixed per run, since the parser reads the weight twice); "1"/"1.00" -> 1.0; "1.<nonzero within 7 digits>" -> any f32 in [1+EPSILON, 2); "1.<nonzero later>" -> 1.0 or 1+EPSILON. Correct rounding of f32::from_str is assumed (documented behaviour of std); parse_probability\'s own 7 lines (strip the colon, f32::from_str, default 1.0) are not under the harness but pinned by a fingerprint: a change voids the abstraction and hands the decision to the failing-input search',
    'strings are built with from_utf8_unchecked from bytes that are valid UTF-8 by construction (std\'s UTF-8 validation of symbolic bytes is intractable for CBMC); arbitrary multi-byte content is represented by one two-byte character at every offset',
    'token_wf in the Kani harness and in the Verus unit are hand-written mirrors of each other',
    DERIVE,
]

LIST_ALLOWED = [DERIVE_ALLOWED, r'^external_body pub fn (into_iter|from_str|verif_strip_spaces|verif_is_empty|verif_split_commas)',
                r'^uninterp spec pub uninterp spec fn (parse_tok|strip_spaces|split_commas|unit_interval)', r'axiom_pair_key_models']
LIST_ASSUME = [
    'Verus (unit LIST), list level of HandRange::from_str, for ALL lists of any length: the real function never returns Err, and its result is range_of_text(s) = the left fold over the comma-separated pieces of the blank-stripped text, each accepted piece writing expand_combos(t) with the token\'s weight into the map in order (so a later token\'s weight replaces an earlier one: lemma_apply_token_wins / lemma_apply_token_frame), rejected pieces skipped, the empty text giving the empty range; and range_valid: every combo of the result is two different cards with a weight in the unit interval',
    'ASSUMED in unit LIST (text level is abstract there): `s.replace(" ", "")`, `trimmed.len() == 0`, `trimmed.split(",")` are replaced by external_body wrappers verif_strip_spaces / verif_is_empty / verif_split_commas around exactly those std calls, specified by uninterpreted strip_spaces / split_commas; HandRangeToken::from_str is a stub whose contract (deterministic function parse_tok of the text; Ok(t) ==> token_wf(t) and weight in the unit interval) is what the Kani harnesses of TOKEN-STR establish for strings of <= 9 / 12 bytes; HandRangeToken::into_iter is a stub whose contract is proved in unit TOKEN',
]

MULTI['C05'] = dict(
    parts=[_k_token('TOKEN-STR', TOK_MEANING), _v('token', TOKEN_ALLOWED), _v('list', LIST_ALLOWED)],
    assumptions=TOKEN_ASSUME + [
        'Verus (unit TOKEN): HandRangeToken::into_iter on a well-formed token returns exactly expand_combos(t) in order, each with the token\'s weight; RankPair::into_iter returns combos_seq(rp); lemma_combos_pocket/suited/ofsuit: combos_seq is the first-principles suit enumeration (6 / 4 / 12)',
        'Kani: for all ranks / suits (symbolic) each of the 7 token shapes without weight parses to the value it denotes with weight 1; every shape carries a \':0.5\' suffix (the value parse_probability gives for that suffix -- one symbolic f32 in [0,1] under the abstraction), \':0\' and \':1\' are carried (that weights above 1 are rejected is C10\'s obligation: tok_wf_weighted_*)',
    ] + LIST_ASSUME,
    bounded=['weights other than none / :0 / :1 / :0.5 are covered only through the parse_probability abstraction'],
    not_decided=['what String::replace(" ", "") and str::split(",") return (std, assumed to strip blanks and split at commas)'],
    samples=[
        {'obligation': 'HandRangeToken::into_iter postcondition', 'clause': 'token_wf(self) ==> res@.len() == expand_combos(self).len() && forall i. res@[i].0 == expand_combos(self)[i] && res@[i].1 == self.probability'},
        {'harness': 'tok_meaning_rank_pairs', 'asserts': "from_str('HKs') == SingleRankPair(Suited(H,K)):1, 'HKs+' == BottomClosed(..), 'HKs-HEs' == DoubleClosed(.., E) for all H < K < E, s/o"},
    ],
    search=[['c05-search', '{seed}', '{n}']], search_n={'quick': 3000, 'thorough': 30000})

FMT_ALLOWED = [DERIVE_ALLOWED, r'^external_body pub fn (into_iter|f32_eq|f32_ne|rank_pairs|orphan_card_pairs)', r'^uninterp spec pub uninterp spec fn f32_eq_spec', r'axiom_pair_key_models']

MULTI['C09'] = dict(
    parts=[_k_card('CARD-STR', ['c09_rank_suit_card_from_str_4', 'c09_cardpair_from_str_6'], [STR_BOUND_Q]),
           _k_token('TOKEN-STR', TOK_TOTAL_Q, TOK_TOTAL_T, [STR_BOUND_Q], not_mine=r'weight_unit'),
           _v('token', TOKEN_ALLOWED), _v('range', RANGE_ALLOWED), _v('iter', ITER_ALLOWED), _v('fmt', FMT_ALLOWED), _v('list', LIST_ALLOWED)],
    assumptions=TOKEN_ASSUME + [
        'Verus (unit FMT): the token-building prefix of Display for HandRange (D3: everything before `let mut res = f.write_str(..)`) has no panic path for any range: its nine unwrap()s are discharged from the run-state invariant "a run is open only at a rank pair that is in the map"; the tail (joining the own Display of the tokens with commas through core::fmt::Formatter) is NOT covered',
        'Kani (bounded strings): Rank/Suit/Card::from_str (<= 4 bytes), CardPair::from_str (<= 6 bytes), HandRangeToken::from_str (<= 9 / 12 bytes) return normally, and Ok(t) ==> token_wf(t)',
        'Verus: under token_wf, HandRangeToken::into_iter has no panic path (RankRange slicing precondition, unwrap of high.next()); rank_pairs / orphan_card_pairs have none for any range; next() has none under wf() (C08)',
        'Verus (unit LIST): HandRange::from_str has no panic path of its own and never returns Err, for lists of any length (its std calls replace / split are assumed total; the token parser is the stub proved total by Kani on bounded strings)',
        'NOT decided: Display for HandRange / HandRangeToken (Formatter)',
    ] + LIST_ASSUME[1:],
    bounded=[STR_BOUND_Q],
    not_decided=['Display (formatting) of ranges and tokens'],
    samples=[
        {'harness': 'tok_total_parse_9_multibyte', 'asserts': 'for every ASCII string of <= 9 bytes with one "é" anywhere: from_str returns; Ok(t) ==> token_wf(t)'},
        {'obligation': 'HandRangeToken::into_iter', 'clause': 'requires token_wf(self); all built-in obligations (slice ranges, unwrap) discharged'},
    ],
    kinds=r'overflow|precondition|kani harness',
    search=[['parse-search', '{seed}', '{n}', 'c09']], search_n={'quick': 20000, 'thorough': 200000})

MULTI['C10'] = dict(
    parts=[_k_token('TOKEN-STR', TOK_TOTAL_Q + TOK_WEIGHTED, TOK_TOTAL_T + TOK_WEIGHTED, [STR_BOUND_Q]),
           _k_card('F32', ['c10_f32_product_unit_interval']),
           _v('token', TOKEN_ALLOWED), _v('iter', ITER_ALLOWED), _v('list', LIST_ALLOWED)],
    assumptions=TOKEN_ASSUME + LIST_ASSUME + [
        'Kani (bounded strings): Ok(t) ==> token_wf(t): weight in [0,1] (under the parse_probability abstraction: accepted tokens carry the parsed value, values above 1 are rejected), SingleCardPair has two different cards, spans ordered',
        'Kani (tok_wf_weighted_*, complete over ranks / suits): for EVERY one of the seven token shapes with any ranks and suits, followed by any weight text of the forms :D, :D.D, :D.DD (D any ASCII digit; all abstraction classes 0, (0,1], 1 and above 1 are reached), Ok(t) ==> token_wf(t) -- no shape lets a weight above 1 through. The all-strings harnesses reach a weight above 1 only on bodies of <= bound - 4 bytes (":1.5" is four bytes; the span shapes are 5 and 7 bytes long), these harnesses close that gap for well-formed bodies (seeded change seeded7/b_1 passed the 9-byte harnesses)',
        'Verus (unit TOKEN): every entry of the expansion carries the token\'s weight; lemma_token_distinct: every combo of expand_combos(t) has two different cards',
        'Kani (complete, binary32): a, b in [0,1] ==> a*b in [0,1] and 1.0*a == a; Verus (unit ITER): a showdown\'s probability is the left fold of f32 products of the chosen weights (f32_mul uninterpreted there); lemma_prob_unit / lemma_run_probabilities: if every weight of every range is in [0,1] then so is the probability of every showdown of a run -- induction over the fold, with the Kani fact imported as axiom_unit_interval_mul / axiom_unit_interval_one (the only link between the two engines)',
        'Verus (unit ITER): lemma_legal_distinct: a yielded deal has 5+2n pairwise different cards',
        'f32::from_str returns a non-negative finite value on the weight grammar (documented behaviour, not verified)',
    ],
    bounded=[STR_BOUND_Q],
    not_decided=[],
    samples=[
        {'obligation': 'HandRange::from_str postcondition (unit LIST)', 'clause': 'r is Ok && r->Ok_0.0@ == range_of_text(s@) && range_valid(r->Ok_0.0@)'},
        {'harness': 'tok_total_parse_9', 'asserts': 'Ok(t) ==> 0 <= t.probability <= 1 && (SingleCardPair(p) ==> p[0] != p[1]) && ...'},
        {'obligation': 'lemma_token_distinct', 'clause': 'token_wf(t) ==> forall i. expand_combos(t)[i].0 != expand_combos(t)[i].1'},
    ],
    search=[['parse-search', '{seed}', '{n}', 'c10']], search_n={'quick': 20000, 'thorough': 200000})


TOK_DISPLAY = ['tok_display_pockets', 'tok_display_rank_pairs', 'tok_display_card_pair']

MULTI['C17'] = dict(
    parts=[_v('fmt', FMT_ALLOWED), _v('range', RANGE_ALLOWED), _k_token('TOKEN-TEXT', [], TOK_DISPLAY)],
    assumptions=[
        'TOKEN-LIST LEVEL ONLY. Verus proves, on the real token-building prefix of Display for HandRange (rule D3: everything before `let mut res = f.write_str(..)`; 8 loops), that the token list equals canon(self.0@), a spec function of the contents alone: pockets from aces down, then for each high card its suited and then its offsuit kickers (each row scanned into maximal runs: a run is closed at the first rank that is absent or whose weight is f32-unequal to the weight at the start of the run), then the leftover single combos in fixed order',
        'hence equal contents => equal token lists, whatever the construction history (the two views it reads are functions of the contents by the contracts of C12: lemma_rank_pairs_unique / lemma_orphans_unique)',
        'TEXT LEVEL ASSUMED: the dropped tail joins the own Display of the tokens with commas through core::fmt::Formatter; Display for HandRangeToken / RankPair / CardPair / f32 are deterministic functions of the token value (f32 0.0 and -0.0 compare equal but print differently)',
        'thorough tier only (Kani, complete over all ranks / suits / shapes, ~8 min): Display for HandRangeToken with weight 1 writes exactly the notation XX, XX+, XX-YY, XYs, XYs+, XYs-XZs (and o), XsYs that the tok_meaning_* harnesses of C05 parse back to the same value; the weight suffix (f32 Display) is not covered',
        '"no two emitted rank-pair tokens could be merged" is read off the definition of canon (a new run starts exactly where the previous one was closed because the weight differs or a rank is missing); not stated as a separate lemma',
        DERIVE, 'key-model axioms for CardPair / RankPair; f32 == / != uninterpreted (R16); callee contracts rank_pairs / orphan_card_pairs proved in unit RANGE',
    ],
    not_decided=['text of the tokens (Formatter), C06 round trip'],
    no_witness_undecided='canon pins the exact order of the leftover combos and the exact token shapes, which is more than "depends only on the contents"',
    samples=[
        {'obligation': 'HandRange::fmt (prefix, re-hosted as fmt_tokens) postcondition', 'clause': 'res@ =~= canon(self.0@)'},
        {'obligation': 'lemma_rank_pairs_unique', 'clause': 'is_rank_pairs_of(r1, m) && is_rank_pairs_of(r2, m) ==> r1 == r2'},
    ],
    search=[['c17-search', '{seed}', '{n}']], search_n={'quick': 3000, 'thorough': 30000})


# ---------------------------------------------------------------------------------------------------
# C06: formatting a range and parsing the text back gives the same range (token-list level proved; text layer assumed)
RT_ALLOWED = [DERIVE_ALLOWED, r'^external_body pub fn (into_iter|f32_eq|f32_ne|verif_strip_spaces|verif_is_empty|verif_split_commas)',
              r'^uninterp spec pub uninterp spec fn (f32_eq_spec|parse_tok|strip_spaces|split_commas|unit_interval)']

MULTI['C06'] = dict(
    parts=[_v('rt', RT_ALLOWED), _v('fmt', FMT_ALLOWED), _v('list', LIST_ALLOWED), _v('token', TOKEN_ALLOWED), _v('range', RANGE_ALLOWED),
           _k_token('TOKEN-STR', TOK_MEANING), _k_token('TOKEN-TEXT', [], TOK_DISPLAY)],
    assumptions=[
        'TOKEN-LIST LEVEL. The chain is: (1) unit FMT, real code: the token list built by Display for HandRange equals canon(contents); (2) unit RT, specification lemmas: lemma_round_trip -- folding the tokens of canon(m) in order into the empty map gives m again, the same combos with identical weights (every token lists only combos of m with their weights: the runs found by the scan are runs of complete rank pairs with f32-equal weights; every combo of m is listed by some token: complete rank pairs by their row\'s run tokens, all others by the leftover tokens), for every range m whose keys are in canonical card order (what CardPair::new builds) and on whose weights f32 == is identity (weights_plain: no 0.0 / -0.0 mixture); (3) unit TOKEN, real code: a token expands to expand_combos; (4) unit LIST, real code: HandRange::from_str folds the accepted pieces in order; lemma_c06 composes them: text_of_tokens(s, canon(m)) ==> range_of_text(s) == m',
        'TEXT LAYER ASSUMED (text_of_tokens): the tail of Display joins the tokens\' own texts with commas (core::fmt::Formatter); each token\'s text parses back to that token -- for weight 1 this is proved (thorough tier, Kani, complete over ranks / suits / shapes: Display writes exactly the notation that the tok_meaning_* harnesses parse to the same value), for other weights it rests on the round trip of f32 Display / from_str (std guarantees shortest round-trip digits, never an exponent) and on the weight grammar [01](\\.[0-9]+)? accepting that text; String::replace / split invert the join (token texts contain neither blanks nor commas)',
        'second sentence of the property (token text round trip): weight 1 by the two Kani harness families above; other weights as in the previous item',
        'KNOWN FINDING (see known_findings.txt): a weight of -0.0 satisfies 0 <= w <= 1 but prints as ":-0", which the weight grammar rejects; from_str silently skips the token and the combo is lost',
        DERIVE, 'key-model axioms for CardPair / RankPair; f32 == / != uninterpreted (R16); callee contracts rank_pairs / orphan_card_pairs proved in unit RANGE',
    ] + LIST_ASSUME[1:],
    not_decided=['the text layer (Formatter, f32 Display, String::replace / split)'],
    no_witness_undecided='the obligations of FMT / LIST / TOKEN pin the exact token list and expansion order, which is more than "the text parses back to the same range"',
    probes=[{'key': 'C06::negative-zero-weight', 'args': ['c06', 'KsKh:-0'], 'what': 'the text of {KsKh: -0.0} parses back to the same range'}],
    samples=[
        {'obligation': 'lemma_round_trip', 'clause': 'is_rank_pairs_of(rps, m) && is_orphans_of(orph, rps, m) && weights_plain(m) && keys_canonical(m) ==> apply_tokens(canonical(rps, orph), len) =~= m'},
        {'obligation': 'lemma_c06', 'clause': '... && text_of_tokens(s, canon(m)) ==> range_of_text(s) =~= m'},
        {'obligation': 'HandRange::fmt (prefix, re-hosted as fmt_tokens) postcondition', 'clause': 'res@ =~= canon(self.0@)'},
        {'obligation': 'HandRange::from_str postcondition (unit LIST)', 'clause': 'r is Ok && r->Ok_0.0@ == range_of_text(s@)'},
    ],
    search=[['c06-search', '{seed}', '{n}']], search_n={'quick': 5000, 'thorough': 50000})


# ---------------------------------------------------------------------------------------------------
# C16: the splitter tiles (unit SCOPES) -- and, for its last clause "so the per-thread results add up to the
# single-threaded result", the scope / into_iter / next contracts of unit ITER (C04)
MULTI['C16'] = dict(
    parts=[_v('scopes', C16_CFG['allowed']), _v('iter', ITER_ALLOWED)],
    assumptions=C16_CFG['assumptions'][:3] + [
        'last clause of the property: a tiling scope list makes the per-thread results add up because an evaluator scoped to [from, to) yields exactly the showdowns of the unscoped run at positions from <= p < to (C04: contracts of scope(), into_iter() and next() in unit ITER, composed over a whole run by the verified client verif_run); the sum over the scopes itself is computed by the example\'s tally loop, which is not under contract',
    ] + ITER_ASSUME[:3],
    samples=C16_CFG['samples'] + [{'obligation': 'verif_run postcondition (unit ITER)', 'clause': 'run_is_enumeration(e, it0, out, cs): the output is, in order and exactly once, every legal deal with from <= position < to'}],
    no_witness_undecided='the ITER contracts pin the whole enumeration (C02, C04, C08); for this property only a worker count whose tiling is wrong or whose per-scope results do not add up counts',
    search=[['scopes-search', '{seed}', '{n}'], ['c16sum-search', '{seed}', '80']], search_n={'quick': 20000, 'thorough': 60000})

# the text layer of range printing is assumed, not verified; its pieces are pinned (see multi.check_pins)
TEXT_PINS = [
    ('src/hand_range/hand_range.rs', 'tail Display for HandRange :: fmt :: let mut res = f.write_str(', '6a5236b8f7e8cbd5'),
    ('src/hand_range/hand_range_token.rs', 'Display for HandRangeToken', '0f8836ffe9b0ad0b'),
    ('src/hand_range/rank_pair.rs', 'Display for RankPair', '19dd650066bafba3'),
    ('src/hand_range/card_pair.rs', 'Display for CardPair', '3fdfeee1a0da67a0'),
    ('src/card/card.rs', 'Display for Card', 'b1c24ad2c74df883'),
    ('src/card/rank.rs', 'Display for Rank', 'f4545eb6859365c1'),
    ('src/card/suit.rs', 'Display for Suit', '056b6068ec329622'),
]
# the constructors by collection rest on std's collect-into-HashMap (a later entry replaces an earlier one): assumed, pinned
BUILD_PINS = [
    ('src/hand_range/hand_range.rs', 'FromIterator<(CardPair, f32)> for HandRange', 'f9efcb81763b0df0'),
    ('src/hand_range/hand_range.rs', 'FromIterator<CardPair> for HandRange', 'd564c479e453854c'),
]
MULTI['C06']['pins'] = TEXT_PINS
MULTI['C17']['pins'] = TEXT_PINS + BUILD_PINS
MULTI['C17']['assumptions'] = MULTI['C17']['assumptions'] + ['the two FromIterator impls of HandRange (collect into the map: a later entry replaces an earlier one) are assumed std behaviour and pinned like the text layer']
for _p in ('C06', 'C17'):
    MULTI[_p]['assumptions'] = MULTI[_p]['assumptions'] + ['the assumed text layer is PINNED: the tail of Display for HandRange (from `let mut res = f.write_str(` on) and the Display impls of HandRangeToken, RankPair, CardPair, Card, Rank, Suit carry fingerprints; a change voids the assumption, the run becomes undecided and the failing-input search (format / parse / compare on the real crate) decides']
