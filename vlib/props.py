"""Per-property configuration for the generic Verus-unit plugin."""

DERIVE = '#[derive(PartialEq)] on Rank/Suit/Card/CardPair is structural equality (PartialEqSpecImpl axioms in the unit)'

CONFIG = {
    'C03': dict(
        unit='showdown',
        allowed=[r'^external_body pub fn from', r'^assume_specification pub assume_specification<T> \[<\[T\]>',
                 r'^uninterp spec pub uninterp spec fn (class7|tables_ok)'],
        stubs=['MadeHand::from  (contracts/made_hand_from.vc, proved in unit EVAL / C01)'],
        assumptions=[
            DERIVE,
            'callee contract MadeHand::from (C01) is assumed here and proved in unit EVAL',
            'assume_specification for <[T]>::contains: true iff some element equals the argument',
            'R7: HashSet::with_capacity_and_hasher(n, FxBuildHasher::default()) replaced by HashSet::<usize>::with_capacity(n); the proof uses only vstd\'s abstract set semantics, valid for any deterministic hasher',
            'R1: Enumerate yields (k, item_k); R11: x.into() is T::from(x); R6: debug_assert! becomes a proof obligation',
            'preconditions: board cards pairwise distinct, each pair\'s two cards differ (the weakest condition for the evaluator\'s contract); winner_len requires <= 255 players (u8 counter)',
        ],
        search=[['showdown-search', '{seed}', '{n}']],
        search_n={'quick': 300000, 'thorough': 3000000},
        samples=[
            {'obligation': 'Showdown::new postcondition', 'clause': 'r is None <==> collides(players@, board@)'},
            {'obligation': 'Showdown::new postcondition', 'clause': 'r matches Some(sd) ==> is_showdown_of(sd, players@, board@, probability)  [whole view: order, hole cards, board, hand == class7, win <==> no other player is stronger]'},
            {'obligation': 'Showdown::winner_len postcondition', 'clause': 'r as int == win_count(self.players@)'},
            {'obligation': 'lemma_some_winner', 'clause': 'is_showdown_of(sd, ..) && players.len() >= 1 ==> win_count(sd.players@) >= 1'},
        ],
    ),

}

ITER_ALLOWED = [r'^external_body pub fn (new|f32_mul)', r'^external_body (pub )?fn new', r'^assume_specification pub assume_specification<T> \[<\[T\]>',
                r'^uninterp spec pub uninterp spec fn (class7|tables_ok|f32_mul_spec)', r'^broadcast axiom|^axiom pub broadcast axiom fn axiom_card_key_model']
ITER_ASSUME = [
    DERIVE,
    'Card key model: derived Hash/Eq of Card agree (broadcast axiom), so vstd set semantics apply to HashSet<Card>',
    'callee contract Showdown::new (C03) assumed here, proved in unit SHOWDOWN',
    'assume_specification for <[T]>::fill: every element becomes the value',
    'R7: HashSet<Card, FxBuildHasher> replaced by HashSet<Card> (abstract set semantics hold for any deterministic hasher)',
    'R1 enumerate, R2/R10: f32 `*=` routed through f32_mul, an uninterpreted deterministic function (floats are NOT treated as reals)',
    'R8: Iterator::next re-hosted as an inherent method so that it can carry `requires wf(self)`',
    'iterator constructor (FlopExhaustiveEvaluatorIterator::new) establishes wf(): deck = the 49 cards not on the flop in code order, entries = the ranges\' combos with two different cards each -- see constructor obligations in evidence',
    'legal(c) is phrased as the code\'s materialisation test; lemma_legal_distinct (proved, Verus) shows it is exactly "all 5+2n cards of the deal are pairwise different"',
    'exactly-once: lemma_succ_rank (proved, Verus) shows one step raises cur_rank = position_index * prod(lens) + mixed_radix(idx) by exactly 1, so the orbit never revisits a cursor and reaches the scope end after rank(end) - rank(start) steps; that cur_rank is a bijection between valid cursors and 0..1176*prod(lens) (uniqueness of mixed-radix representation) is standard and NOT mechanised',
]
ITER_SAMPLES = [
    {'obligation': 'FlopExhaustiveEvaluatorIterator::next postcondition', 'clause': 'next_post(*old(self), *final(self), res): Some(sd) ==> exists k. skipped(g,a,k) && legal(adv(a,k)) && is_showdown_of(sd, combos_at, board_at, prob_at) && cursor == succ(adv(a,k)); None ==> some range empty or exists k. skipped(g,a,k) && adv(a,k) at the scope end'},
    {'obligation': 'next: main loop decreases', 'clause': '48 - turn, 49 - river, radix_prod(lens) - radix_val(idx, lens)  (lexicographic)'},
    {'obligation': 'next: built-in', 'clause': 'no u8/usize overflow, every index in bounds, every unwrap on Some'},
    {'obligation': 'lemma_legal_distinct', 'clause': 'game_ok(g) && cur_ok(g, c) ==> (legal(g, c) <==> distinct_cards(deal_cards(g, c)))'},
    {'obligation': 'lemma_succ_rank', 'clause': 'cur_rank(succ(c, lens), lens) == cur_rank(c, lens) + 1'},
]

CONFIG['C02'] = dict(unit='iter', allowed=ITER_ALLOWED, assumptions=ITER_ASSUME, samples=ITER_SAMPLES,
    stubs=['Showdown::new (contracts/showdown_new.vc, proved in unit SHOWDOWN / C03)'],
    kinds=r'postcondition|invariant|assertion',
    search=[['iter-search', '{seed}', '{n}', '{marker}', 'c02']], search_n={'quick': 240, 'thorough': 2400})
CONFIG['C04'] = dict(unit='iter', allowed=ITER_ALLOWED, assumptions=ITER_ASSUME, samples=ITER_SAMPLES,
    stubs=['Showdown::new (contracts/showdown_new.vc, proved in unit SHOWDOWN / C03)'],
    kinds=r'postcondition|invariant|assertion',
    search=[['iter-search', '{seed}', '{n}', '{marker}', 'c04']], search_n={'quick': 240, 'thorough': 2400})
CONFIG['C08'] = dict(unit='iter', allowed=ITER_ALLOWED, assumptions=ITER_ASSUME, samples=ITER_SAMPLES,
    stubs=['Showdown::new (contracts/showdown_new.vc, proved in unit SHOWDOWN / C03)'],
    kinds=r'overflow|precondition|decreases|termination|recursion',
    search=[['iter-search', '{seed}', '{n}', '{marker}', 'c08']], search_n={'quick': 240, 'thorough': 2400})

CONFIG['C16'] = dict(unit='scopes',
    allowed=[r'^external_body pub fn raw_cut'],
    assumptions=[
        'raw_cut (the f32 sqrt/floor/%/ceil formula) is external_body with NO postcondition: the tiling theorem holds for any pair of u8 it returns; floats are not modelled at all',
        'raw_cut\'s own freedom from u8 overflow/underflow (48 - turn_to, + turn_to + 1) depends on float behaviour and is NOT checked',
        'precondition count >= 1 (the property\'s quantifier)',
        'that a tiling scope list makes the per-thread results add up to the single-threaded result is C04 (chained scopes reproduce the full run)',
    ],
    samples=[{'obligation': 'calculate_scopes postcondition', 'clause': 'tiles(r@, count): len == count, first.from == (0,1), last.to == (48,49), every from/to a valid position or the terminal, from <=lex to, scope[k+1].from == scope[k].to'}],
    search=[['scopes-search', '{seed}', '{n}']], search_n={'quick': 20000, 'thorough': 60000})

RANGE_ALLOWED = [r'^external_body pub fn (into_iter|f32_eq)', r'^uninterp spec pub uninterp spec fn f32_eq_spec', r'axiom_pair_key_models']
CONFIG['C12'] = dict(unit='range', allowed=RANGE_ALLOWED,
    stubs=['RankPair::into_iter (contracts/rankpair_into_iter.vc: the 6/4/12 combos, proved on the real body in unit TOKEN)',
           'RankRange::into_iter (contiguous run of ranks; proved for all ordered endpoint pairs by Kani harness c13_rank_range)'],
    assumptions=[
        DERIVE,
        'key models: derived Hash/Eq of CardPair and RankPair agree (broadcast axiom), so vstd map semantics apply to the two HashMaps',
        'derive(PartialOrd) on Card is the order of card codes (PartialOrdSpecImpl axiom; proved for the real derived impl by Kani harness c13_order_next_prev)',
        'R16: `==` on f32 routed through f32_eq, an uninterpreted deterministic relation: "same weight" means IEEE-equal to the first combo\'s weight (NaN weights never form a rank pair); floats are not modelled',
        'R7: HashMap<_, f32, FxBuildHasher> replaced by HashMap<_, f32>; R14: .into_iter().all(closure) as a short-circuit loop; R4: is_some_and as match; R17: by-value iteration of the rank-pair map as .iter()',
        'combos_seq (the 6/4/12 listed combos) equals the first-principles suit enumeration in_rank_pair: lemma_combos_pocket/suited/ofsuit (proved, Verus)',
    ],
    samples=[
        {'obligation': 'HandRange::rank_pairs postcondition', 'clause': 'is_rank_pairs_of(res@, self.0@): res contains rp <==> valid_rp(rp) && every combo of rp is present with a weight f32-equal to the first one; res[rp] is that weight'},
        {'obligation': 'HandRange::orphan_card_pairs postcondition', 'clause': 'exists r. is_rank_pairs_of(r, m) && is_orphans_of(res@, r, m): res contains cp <==> m contains cp && no reported rank pair lists cp; weights unchanged'},
        {'obligation': 'lemma_partition', 'clause': 'the two views cover every combo of the range exactly once'},
    ],
    search=[['c12-search', '{seed}', '{n}']], search_n={'quick': 300000, 'thorough': 3000000})


# ---------------------------------------------------------------------------------------------------
# multi-part properties
from . import multi

EVAL_ALLOWED = [r'^external_body pub const (REF_|AS_)']


def _v(unit, allowed, relevant=lambda f: True):
    return lambda tier: multi.verus_part(unit, allowed, relevant, tier)


MULTI = {}
MULTI['C11'] = dict(
    parts=[_v('eval', EVAL_ALLOWED, lambda f: f != 'MadeHand::hand_type'),
           _v('showdown', CONFIG['C03']['allowed']),
           _v('iter', ITER_ALLOWED)],
    assumptions=[
        'L11a (Verus, unit EVAL): class7(relabel(cards, p)) == class7(cards) for every suit permutation p, and class7 is invariant under swapping two positions; with C01\'s contract the real evaluator is suit- and order-blind',
        'L11b (Verus, unit SHOWDOWN): winner flags are determined by the strengths alone and follow the players under any reordering (lemma_flags_follow over C03\'s postcondition); lemma_some_winner + winner_len == number of flags: the k winners\' shares of 1/k are k in number',
        'L11d / counting step NOT mechanised: that suit relabelling and player reordering carry the set of legal deals bijectively (the deck order changes within a rank, so positions are permuted), hence equal tallies from the flag equalities, is a paper argument over C02\'s stepper contract',
        'the tallies themselves are computed by the caller (README / examples), not by the crate; 1/k shares are floating-point in the examples and their sum is not modelled',
    ] + ITER_ASSUME[:3],
    samples=[
        {'obligation': 'lemma_class7_relabel', 'clause': 'is_perm(p, q) && cards.len() == 7 ==> class7(relabel(cards, p)) == class7(cards)'},
        {'obligation': 'lemma_class7_swap', 'clause': 'class7(cards.update(i, cards[j]).update(j, cards[i])) == class7(cards)'},
        {'obligation': 'lemma_flags_follow', 'clause': 'is_showdown_of(sd1, ..) && is_showdown_of(sd2, ..) && strengths_follow(.., pi, inv) ==> forall i. sd2.players[i].win == sd1.players[pi(i)].win'},
    ],
    not_decided=['equality of whole tallies (the bijection between the two enumerations) is argued on paper, see assumptions'],
    search=[['c11-search', '{seed}', '{n}']], search_n={'quick': 400, 'thorough': 4000})


# failing-input searches of properties whose plugins live elsewhere (used by vcheck's fallback)
EXTRA_SEARCH = {
    'C13': dict(search=[['card-check', 'c13']]),
    'C14': dict(search=[['card-check', 'c14']]),
}
