import json
from . import core


def run(path):
    d = json.load(open(path))
    print('property', d['property'], 'failed obligation:', d['failed_obligation'])
    w = d.get('witness')
    if not w:
        print('no failing input recorded; verifier output follows')
        print(d.get('verifier_output', '')[:4000])
        return 0
    exe = core.build_replay()
    if d.get('replay_kind') == 'eval':
        p = core.sh([exe, 'eval'] + w['cards'])
        print('input   :', ' '.join(w['cards']))
        print('expected:', {k: v for k, v in w.items() if k in ('kind', 'want', 'got')})
        print((p.stdout + p.stderr).strip())
        return 1
    args = w.get('replay_args')
    if args:
        p = core.sh([exe] + args)
        print('input   :', ' '.join(args))
        print('expected:', w.get('expected'))
        print((p.stdout + p.stderr).strip()[-3000:])
        return 1
    print(json.dumps(w, indent=1))
    return 1
