"""Build a unit from /repo and run Verus on it; parse per-function results."""
import json
import os
import re
import subprocess
import time

from extract.unit import UnitBuilder
from extract.rsx import AnchorError

VERIF = os.path.dirname(os.path.dirname(os.path.abspath(__file__)))
BUILD = os.path.join(VERIF, 'build', os.environ.get('VERIF_BUILD_SUB', '')).rstrip('/')
REPO = os.environ.get('VERIF_REPO', '/repo')

ASSUME_PAT = re.compile(r'\b(assume\s*\(|admit\s*\(|external_body|assume_specification|verifier::external\b|verifier::external_fn_specification|verifier::external_type_specification|uninterp\s+spec|axiom\s+fn|Partial(?:Eq|Ord)SpecImpl\s+for)')


class Undecided(Exception):
    """tooling problem / lost anchor / unsupported construct / resource limit: exit 2, never an alarm"""


class UnitResult:
    def __init__(self):
        self.unit = None
        self.path = None
        self.functions = {}     # name -> dict(success, time_ms, rlimit)
        self.errors = []        # list of dict(kind, line, text, function)
        self.stderr = ''
        self.items = []
        self.clauses = 0
        self.contracted = []
        self.assumption_scan = []
        self.wall_s = 0.0
        self.smt_ms = 0
        self.verified = 0
        self.n_errors = 0
        self.compile_error = None

    def failed_functions(self):
        return sorted(f for f, d in self.functions.items() if not d['success'])


def build_unit(unit, canary=None):
    os.makedirs(BUILD, exist_ok=True)
    b = UnitBuilder(REPO, canary=canary)
    tmpl = os.path.join(VERIF, 'units', unit + '.vt')
    try:
        text = b.build(tmpl)
    except AnchorError as e:
        raise Undecided('lost anchor in unit %s: %s' % (unit, e))
    path = os.path.join(BUILD, unit + ('_canary_' + canary if canary else '') + '.rs')
    canary_lines = {}
    if canary:
        for k, ln in enumerate(text.split('\n'), 1):
            for cm in re.finditer(r'/\*CANARY (\S+)\*/', ln):
                canary_lines.setdefault(k, []).append(cm.group(1))
    open(path, 'w').write(text)
    return b, path, text, canary_lines


def scan_assumptions(text):
    """mechanical scan for assume/admit/external_body/assume_specification/uninterp; each hit is
    {'line','kind','item'} where item is the declaration the attribute applies to."""
    out = []
    lines = text.split('\n')
    for k, ln in enumerate(lines, 1):
        s = ln.strip()
        if s.startswith('//'):
            continue
        code = ln.split('//')[0]
        m = ASSUME_PAT.search(code)
        if m:
            item = s
            if s.startswith('#['):
                for nxt in lines[k:k + 6]:
                    t = nxt.strip()
                    if t and not t.startswith('#[') and not t.startswith('//'):
                        item = t
                        break
            if 'SpecImpl' in m.group(1):
                item = s
            item = re.sub(r'\s*[=({].*$', '', item)[:100] if 'SpecImpl' in m.group(1) else re.sub(r'\s*[:=({].*$', '', item)[:100]
            out.append({'line': k, 'kind': m.group(1).strip(' ('), 'item': item})
    return out


def check_allowed(scan, allowed):
    """allowed: list of regexes matched against 'kind item'. returns unexpected entries."""
    bad = []
    for e in scan:
        key = '%s %s' % (e['kind'], e['item'])
        if not any(re.search(a, key) for a in allowed):
            bad.append(key)
    return bad


def fn_line_map(text):
    """line number -> enclosing function name (top-level `fn name` most recently seen)"""
    res = []
    cur = None
    for k, ln in enumerate(text.split('\n'), 1):
        m = re.match(r'\s*(?:pub\s+)?(?:open\s+|closed\s+)?(?:spec\s+|proof\s+|exec\s+)?fn\s+(\w+)', ln)
        if m:
            cur = m.group(1)
        mi = re.match(r'\s*impl\b(.*)\{', ln)
        res.append(cur)
    return res


def run_verus(unit, compile_bin=False, canary=None, extra_args=(), timeout=1800):
    r = UnitResult()
    r.unit = unit
    t0 = time.time()
    b, path, text, canary_lines = build_unit(unit, canary)
    r.path = path
    r.items, r.clauses, r.contracted = b.items, b.clauses, b.contracted
    r.assumption_scan = scan_assumptions(text)
    r.canary_lines = canary_lines
    args = ['verus', os.path.basename(path), '--output-json', '--time', '--multiple-errors', '50'] + list(extra_args)
    if compile_bin:
        args.append('--compile')
    try:
        p = subprocess.run(args, cwd=BUILD, capture_output=True, text=True, timeout=timeout)
    except subprocess.TimeoutExpired:
        raise Undecided('verus timed out on unit %s' % unit)
    r.stderr = p.stderr
    r.wall_s = time.time() - t0
    try:
        js = json.loads(p.stdout)
    except Exception:
        raise Undecided('verus produced no JSON for unit %s: %s' % (unit, (p.stderr or p.stdout)[-2000:]))
    vr = js.get('verification-results', {})
    r.verified = vr.get('verified', 0)
    r.n_errors = vr.get('errors', 0)
    tm = js.get('times-ms', {})
    smt = tm.get('smt', {})
    r.smt_ms = smt.get('smt-run', 0)
    for mod in smt.get('smt-run-module-times', []):
        for f in mod.get('function-breakdown', []):
            name = f['function'].split('::', 1)[-1]
            r.functions[name] = {'success': bool(f.get('success')), 'time_ms': f.get('time', 0), 'rlimit': f.get('rlimit', 0)}
    # rustc-level errors (type errors etc.): no functions verified at all
    if not vr.get('success', False) and not r.functions and r.n_errors == 0:
        r.compile_error = p.stderr[-4000:]
    if re.search(r'^error(\[E\d+\])?:', p.stderr, re.M) and not r.functions:
        r.compile_error = p.stderr[-4000:]
    r.errors = parse_errors(p.stderr, text)
    return r


def parse_errors(stderr, text):
    fmap = fn_line_map(text)
    base = None
    errs = []
    blocks = re.split(r'\n(?=error|note:|warning)', stderr)
    for blk in blocks:
        m = re.match(r'error(?:\[E\d+\])?: (.*)', blk)
        if not m:
            continue
        msg = m.group(1).strip()
        if msg.startswith('aborting due to'):
            continue
        lm = re.search(r'-->\s+\S+?:(\d+):(\d+)', blk)
        line = int(lm.group(1)) if lm else 0
        fn = fmap[line - 1] if 0 < line <= len(fmap) else None
        # postcondition errors point at the ensures clause; the function is the same either way
        src = text.split('\n')[line - 1].strip() if 0 < line else ''
        errs.append({'kind': msg, 'line': line, 'function': fn, 'source': src[:200], 'detail': blk[:6000]})
    return errs


_ADDED_STMT = re.compile(r'^\s*(return\b|debug_assert|assert!|assert_eq!|debug_assert_eq!|assert\s*\(|unreachable!|panic!)')


def baseline_line_set(unit):
    """whitespace-free lines of the unit as generated from the COMMITTED tree (git HEAD of the repository under check);
    None when that tree is not available"""
    import shlex, shutil, tempfile
    tmp = tempfile.mkdtemp(prefix='espada_head_')
    try:
        p = subprocess.run('git -C %s archive HEAD | tar -x -C %s' % (shlex.quote(REPO), shlex.quote(tmp)), shell=True, capture_output=True, text=True, timeout=120)
        if p.returncode != 0 or not os.path.exists(os.path.join(tmp, 'src')):
            return None
        text = UnitBuilder(tmp).build(os.path.join(VERIF, 'units', unit + '.vt'))
        return set(re.sub(r'\s+', '', l) for l in text.split('\n'))
    except Exception:
        return None
    finally:
        shutil.rmtree(tmp, ignore_errors=True)


def only_added_statements(r, failed_fns):
    """True iff EVERY verification error of the failed functions quotes a statement that the uncommitted change ADDED and
    that is an exit or an assertion (an early `return`, assert!, debug_assert!, unreachable!).  Such an obligation did not
    exist on the committed tree: not being able to discharge it is not "an obligation that passed and now fails"."""
    errs = [e for e in r.errors if e['function'] and any(f == e['function'] or f.endswith('::' + e['function']) for f in failed_fns)]
    if not errs:
        return False
    base = baseline_line_set(r.unit)
    if base is None:
        return False
    lines = open(r.path).read().split('\n')
    for e in errs:
        if re.search(r'resource limit|rlimit', e['kind'], re.I):
            return False
        nums = set(int(x) for x in re.findall(r'^\s*(\d+)\s*\|', e['detail'], re.M))
        if not any(0 < k <= len(lines) and _ADDED_STMT.match(lines[k - 1]) and re.sub(r'\s+', '', lines[k - 1]) not in base for k in nums):
            return False
    return True


def check_canaries(unit, mode='fn'):
    """every canary must FAIL (reachable).  returns (n_canaries, [labels that verified = vacuous])"""
    r = run_verus(unit, canary=mode)
    if r.compile_error:
        raise Undecided('canary build failed: ' + r.compile_error[-500:])
    failed_lines = set()
    for e in r.errors:
        if 'assertion failed' in e['kind']:
            failed_lines.add(e['line'])
    labels = []
    vacuous = []
    for ln, labs in r.canary_lines.items():
        for lab in labs:
            labels.append(lab)
        if ln not in failed_lines:
            # several canaries can share a line only if one-liner fns; treat conservatively
            vacuous.extend(labs)
    return len(labels), vacuous, r
