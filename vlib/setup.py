import shutil
import subprocess
from . import core


def run():
    ok = True
    for tool in ('verus', 'cargo', 'python3'):
        if not shutil.which(tool):
            print('missing tool', tool)
            ok = False
    try:
        core.build_replay()
        print('replay crate built')
    except Exception as e:
        print('replay crate failed:', e)
        ok = False
    return 0 if ok else 1
