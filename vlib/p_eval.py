"""Properties decided in unit EVAL: C01 (class of the best five-card hand), C07 (category)."""
import os
import re
import subprocess
import time
from concurrent.futures import ThreadPoolExecutor

from . import core
from .core import Violation
from .verus import run_verus, check_canaries, check_allowed, Undecided, BUILD

ALLOWED = [
    r'^external_body pub const (REF_|AS_)',
    r'^Partial(Eq|Ord)SpecImpl for impl vstd::std_specs::cmp::Partial(Eq|Ord)SpecImpl for (Rank|Suit|Card|MadeHand)$',
]

ASSUMPTIONS = [
    'spec: the closed-form FIVE-card class numbering of specs/eval_spec.rs (class5, lifted to cards by class5_cards) IS the standard 1..7462 numbering; machine-checked only as far as: every class lands in its category interval (classes_ok, verus+run). The step from five to seven cards is no longer assumed: lemma_class7_is_best (specs/eval_lemmas.rs) proves that the result of the real MadeHand::from is the minimum of class5_cards over the 21 five-card sub-hands and is attained by one of them, for all 7 distinct cards, flush and non-flush hands alike',
    '#[derive(PartialEq)] on Rank/Suit/Card is structural equality (PartialEqSpecImpl axioms in the unit)',
    'REF_*/AS_* constants are external_body for Z3 (content unknown to the solver); their content is checked by the verified checker compiled with rustc and run natively',
    'machine integers are NOT treated as mathematical: every u8/u16/usize operation carries an overflow obligation',
]

C07_ONLY = {'hand_type'}


def relevant(pid, fn):
    if pid == 'C01':
        return fn not in C07_ONLY
    return True


def run_checker():
    p = core.sh(['./eval', 'check'], cwd=BUILD, timeout=600)
    m = re.search(r'CHECKER tables_ok=(\w+) classes_ok=(\w+) fail=\[(.*?)\]', p.stdout)
    if not m:
        raise Undecided('table checker produced no verdict: ' + (p.stdout + p.stderr)[-500:])
    fail = [int(x) for x in m.group(3).split(',') if x.strip()]
    return m.group(1) == 'true', m.group(2) == 'true', fail


def witness_search(modes, want_kind, seed, limit=3, nshards=16):
    """run the compiled unit's failing-input search; returns list of witness dicts"""
    found = []
    tried = 0
    for mode in modes:
        def one(sh):
            return core.sh(['./eval', 'witness', mode, str(sh), str(nshards), str(limit)], cwd=BUILD, timeout=3600).stdout
        with ThreadPoolExecutor(max_workers=nshards) as ex:
            outs = list(ex.map(one, range(nshards)))
        for out in outs:
            for ln in out.split('\n'):
                m = re.match(r'WITNESS kind=(\w+) cards=(\S+)(.*)', ln)
                if m:
                    kv = dict(x.split('=') for x in m.group(3).split())
                    found.append({'kind': m.group(1), 'cards': m.group(2).split(','), **kv})
                m = re.match(r'WITNESS-SEARCH .* tried=(\d+)', ln)
                if m:
                    tried += int(m.group(1))
        sel = [w for w in found if want_kind(w)]
        if sel:
            return sel, tried, mode
    return [], tried, modes[-1]


def confirm_on_real_crate(w):
    """replay a witness through the public API of the real crate; returns (confirmed, observed_text)"""
    exe = core.build_replay()
    p = core.sh([exe, 'eval'] + w['cards'], timeout=60)
    out = (p.stdout + p.stderr).strip()
    m = re.search(r'OBSERVED index=(\d+) category=(\w+)', out)
    if not m:
        return (p.returncode != 0), out[-300:]   # a panic is a confirmed failure
    cats = ['HighCard', 'Pair', 'TwoPair', 'Trips', 'Straight', 'Flush', 'FullHouse', 'Quads', 'StraightFlush']
    if w['kind'] == 'index':
        return int(m.group(1)) != int(w['want']), out
    if w['kind'] == 'category':
        return m.group(2) != cats[int(w['want'])], out
    return False, out


def slot_to_witness(fail):
    """failing checker slot (13 multiplicities + kind) -> description"""
    q, kind = fail[:13], fail[13]
    names = 'AKQJT98765432'
    return {'kind': 'table-slot', 'table': ['AS_RAINBOW', 'AS_FLUSH', 'class5', 'class5-flush'][kind],
            'ranks': ''.join(names[i] * q[i] for i in range(13))}


def holds_problem():
    """for checks whose unit ASSUMES the contract of MadeHand::from: is that contract still backed on the current code?
    returns None or a description of what fails (never raises for a mere failure)"""
    try:
        r = run_verus('eval', compile_bin=True)
        if r.compile_error:
            return 'unit EVAL does not compile on the current code: ' + r.compile_error[-300:]
        if check_allowed(r.assumption_scan, ALLOWED):
            return 'unexpected assumption in unit EVAL'
        failed = sorted(f for f, v in r.functions.items() if not v['success'] and f not in C07_ONLY)
        if failed:
            return 'obligation(s) failed: %s' % failed
        if not os.path.exists(os.path.join(BUILD, 'eval')):
            p = core.sh(['verus', 'eval.rs', '--compile', '--no-verify'], cwd=BUILD, timeout=600)
            if p.returncode != 0:
                return 'cannot compile the table checker'
        tables_ok, classes_ok, fail = run_checker()
        if not (tables_ok and classes_ok):
            return 'table checker: tables_ok=%s classes_ok=%s first failing slot %s' % (tables_ok, classes_ok, fail[:1])
        return None
    except Undecided as e:
        return str(e)[:300]


def run(pid, tier, seed):
    t0 = time.time()
    r = run_verus('eval', compile_bin=True)
    if r.compile_error:
        raise Undecided('unit EVAL does not compile: ' + r.compile_error[-800:])
    bad = check_allowed(r.assumption_scan, ALLOWED)
    if bad:
        raise Undecided('unexpected assumption in generated unit: %s' % bad[:3])
    if not os.path.exists(os.path.join(BUILD, 'eval')) or r.n_errors:
        # verification failed: still need the binary for checker + witness search
        p = core.sh(['verus', 'eval.rs', '--compile', '--no-verify'], cwd=BUILD, timeout=600)
        if p.returncode != 0:
            raise Undecided('cannot compile unit EVAL: ' + p.stderr[-500:])
    tables_ok, classes_ok, fail = run_checker()
    ncan, vac, _ = check_canaries('eval', 'fn')
    if vac:
        raise Undecided('vacuous contract(s): canary verified for %s' % vac[:5])
    if tier == 'thorough':
        ncan2, vac2, _ = check_canaries('eval', 'loop')
        if vac2:
            raise Undecided('vacuous loop invariant(s): canary verified for %s' % vac2[:5])
        ncan += ncan2

    fns = {k: v for k, v in r.functions.items() if relevant(pid, k)}
    failed = [f for f in fns if not fns[f]['success']]
    violations = []
    premises_ok = tables_ok and classes_ok
    search_info = None
    if failed or not premises_ok:
        if pid == 'C01':
            want = lambda w: w['kind'] in ('index', 'panic')
        else:
            want = lambda w: w['kind'] in ('category', 'panic') or (w['kind'] == 'index')
        ws, tried, mode = witness_search(['patterns', 'full'], want, seed)
        search_info = {'tried': tried, 'last_mode': mode}
        confirmed = None
        for w in ws:
            ok, obs = confirm_on_real_crate(w)
            if ok:
                confirmed = dict(w)
                confirmed['observed_on_real_crate'] = obs
                break
        obligations = ['EVAL::%s' % f for f in failed]
        if not tables_ok:
            obligations.append('EVAL::tables_ok[verus+run] slot=%s' % (slot_to_witness(fail) if fail else '?'))
        if not classes_ok:
            obligations.append('EVAL::classes_ok[verus+run]')
        detail = '\n'.join(e['detail'] for e in r.errors if e['function'] is None or any(f == e['function'] or f.endswith('::' + e['function']) for f in failed))[:6000]
        if confirmed is None and ws:
            # candidates that do not reproduce on the real crate: extraction/glue disagreement
            raise Undecided('witness does not reproduce on the real crate: %s' % ws[0])
        if confirmed is None and pid == 'C07' and 'hand_type' not in failed and classes_ok:
            # C07 rests on C01's contract; the failure is reported under C01, and the search found no
            # hand whose reported category is wrong
            raise Undecided('C01 obligation(s) %s failed; no category mismatch found (see C01)' % failed)
        violations.append(Violation(pid, '+'.join(obligations), detail, confirmed,
                                    key='+'.join(sorted(obligations)), replay_kind='eval'))

    n_obl = len(fns) + 2
    n_dis = sum(1 for v in fns.values() if v['success']) + int(tables_ok) + int(classes_ok)
    cov = {
        'obligations': n_obl,
        'discharged': n_dis,
        'checker_cmd': 'verus build/eval.rs --output-json --time --compile && build/eval check',
        'trusted_base': core.TRUSTED_BASE,
        'back_ends': {'verus+z3': len(fns), 'verus+run (verified checker executed on the extracted constants)': 2},
        'verified_checker': {'tables_ok': tables_ok, 'classes_ok': classes_ok,
                             'slots': 'all 49,205 rank vectors (AS_RAINBOW), all 4,719 suited vectors with 5..7 bits (AS_FLUSH), all 7,462 five-card vectors (class/category consistency)'},
        'unit': core.summarize_unit(r, lambda k: relevant(pid, k)),
        'functions': {k: v for k, v in sorted(fns.items())},
        'canaries': {'inserted': ncan, 'vacuous': 0},
        'assumption_scan': ['%s %s' % (e['kind'], e['item']) for e in r.assumption_scan][:80],
        'extracted_items': [{'item': i['item'], 'file': i['file'], 'rules': i.get('rules')} for i in r.items if not i['item'].startswith('const ')],
        'extracted_consts': sum(1 for i in r.items if i['item'].startswith('const ')),
        'samples': [
            {'obligation': 'MadeHand::from postcondition', 'clause': 'r.0 as int == class7(cards@), 1 <= r.0 <= 7462', 'for': 'every [Card; 7] of pairwise distinct cards, in the given order'},
            {'obligation': 'hand_type postcondition', 'clause': '1 <= self.0 <= 7462 ==> r == type_of_cat(category(self.0))'},
            {'obligation': 'tables_ok', 'clause': 'forall q: vec_ok(q,4) && vsum(q)==7 ==> AS_RAINBOW[hash_spec(q)] == best_of(q,false,7)'},
        ],
        'failing_input_search': search_info,
        'exhaustive': False,
    }
    return core.finish(pid, tier, seed, t0, violations, cov, ASSUMPTIONS)
