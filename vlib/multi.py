"""Properties decided by several parts (Verus units and/or Kani harness sets)."""
import os
import re
import time

from . import core
from .core import Violation
from .verus import run_verus, check_canaries, check_allowed, only_added_statements, Undecided, VERIF
from .generic import native_search

_unit_cache = {}


def verus_part(unit, allowed, relevant, tier):
    key = (unit, tier)
    if key not in _unit_cache:
        r = run_verus(unit)
        if r.compile_error:
            raise Undecided('unit %s does not compile (construct outside the verified subset, or lost anchor): %s' % (unit, r.compile_error[-800:]))
        bad = check_allowed(r.assumption_scan, allowed)
        if bad:
            raise Undecided('unexpected assumption in generated unit %s: %s' % (unit, bad[:3]))
        ncan, vac, _ = check_canaries(unit, 'fn')
        if vac:
            raise Undecided('vacuous contract(s) in %s: canary verified for %s' % (unit, vac[:5]))
        if tier == 'thorough':
            n2, vac2, _ = check_canaries(unit, 'loop')
            if vac2:
                raise Undecided('vacuous loop invariant(s) in %s: %s' % (unit, vac2[:5]))
            ncan += n2
        _unit_cache[key] = (r, ncan)
    r, ncan = _unit_cache[key]
    fns = {k: v for k, v in r.functions.items() if relevant(k)}
    if not fns:
        raise Undecided('no obligations generated in unit %s' % unit)
    failed = sorted(f for f in fns if not fns[f]['success'])
    if failed and re.search(r'resource limit|rlimit', r.stderr, re.I) and not re.search(r'postcondition|precondition|assertion failed|invariant', r.stderr):
        raise Undecided('solver resource limit in %s::%s' % (unit, failed))
    detail = '\n'.join(e['detail'] for e in r.errors if e['function'] is None or any(f == e['function'] or f.endswith('::' + e['function']) for f in failed))[:4000]
    kinds = sorted(set(e['kind'] for e in r.errors if e['function'] and any(f.endswith(e['function']) for f in failed)))
    return {
        'name': unit.upper(), 'engine': 'verus+z3', 'obligations': len(fns), 'discharged': len(fns) - len(failed),
        'failed': ['%s::%s' % (unit.upper(), f) for f in failed], 'kinds': kinds, 'detail': detail,
        'only_added': bool(failed) and only_added_statements(r, failed),
        'evidence': {'unit': core.summarize_unit(r, relevant), 'canaries': ncan,
                     'assumption_scan': ['%s %s' % (e['kind'], e['item']) for e in r.assumption_scan][:60],
                     'functions': {k: v for k, v in sorted(fns.items())}},
    }


def kani_part(name, runner):
    """runner() -> dict from p_kani.run_kani"""
    r = runner()
    if not r['failed']:
        for a, b in r['covers']:
            if a != b:
                raise Undecided('vacuous harness in %s: a kani::cover! is unsatisfiable' % name)
    if r['failed'] and r['unwinding'] and r['cbmc_checks_failed'] == len(r['failed']):
        raise Undecided('only unwinding assertions failed in %s: bound too small for the current code' % r['failed'])
    return {
        'name': name, 'engine': 'kani+cbmc', 'is_bounded': bool(r.get('bounded')),
        'obligations': r['cbmc_checks'], 'discharged': r['cbmc_checks'] - r['cbmc_checks_failed'],
        'failed': ['%s::%s' % (name, f) for f in r['failed']], 'kinds': ['kani harness failed'] if r['failed'] else [],
        'detail': (r['fail_detail'] + '\n' + r['raw_tail'])[:4000] if r['failed'] else '',
        'evidence': {'harnesses': r.get('names'), 'harnesses_verified': r['ok'], 'cbmc_checks': r['cbmc_checks'],
                     'cover_properties': r['covers'], 'solver_s': r['solver_s'], 'kani_wall_s': r['wall_s'], 'bounded': r.get('bounded', [])},
    }


def check_pins(pins):
    """ASSUMED pieces of the real code (e.g. the text layer: Display impls, the Formatter tail) are pinned to the text
    the assumption was argued for.  A changed pin voids the assumption: the run is undecided and vcheck's fallback hands
    the decision to the failing-input search (never an alarm by itself)."""
    from extract import rsx
    from .verus import REPO
    out = []
    for f, sel, want in pins:
        path = os.path.join(REPO, f)
        try:
            src = rsx.Source(path)
            if sel.startswith('tail '):
                # 'tail <impl header> :: <fn> :: <anchor text>': everything of the fn from the anchor on
                hdr, fn, anchor = [x.strip() for x in sel[5:].split(' :: ')]
                text = src.impl_fn(hdr, fn)[1]
                text = text[text.index(anchor):]
            else:
                text = src.impl_item(sel)
            got = rsx.sha(rsx.norm_fp(text))
        except Exception as e:
            raise Undecided('lost anchor: assumed item %s :: %s not found (%s)' % (f, sel, e))
        if got != want:
            raise Undecided('lost anchor: assumed item %s :: %s changed (fingerprint %s, expected %s): the assumption about it is no longer backed' % (f, sel, got, want))
        out.append({'file': f, 'item': sel, 'sha256_16': got})
    return out


def run(pid, tier, seed, cfg):
    t0 = time.time()
    pinned = check_pins(cfg.get('pins', []))
    # parts are independent (different units / scratch copies): run them concurrently
    from concurrent.futures import ThreadPoolExecutor
    with ThreadPoolExecutor(max_workers=len(cfg['parts'])) as ex:
        futs = [ex.submit(p, tier) for p in cfg['parts']]
        parts = [r for r in (f.result() for f in futs) if r is not None]   # a part may exist in one tier only
    failed = [f for p in parts for f in p['failed']]
    violations = []
    info = None
    if failed:
        n = cfg.get('search_n', {}).get(tier)
        cmds = [[x.replace('{n}', str(n)) if n else x for x in c] for c in cfg.get('search', [])]
        w, info = native_search(cmds, seed) if cmds else (None, None)
        kinds = sorted(set(k for p in parts for k in p['kinds']))
        if w is None and all(p.get('only_added') for p in parts if p['failed']):
            raise Undecided('the only undischarged obligations %s are at statements the uncommitted change added (early return / assertion): they did not exist on the committed tree; no failing input for %s was found' % (failed, pid))
        if w is None and cfg.get('no_witness_undecided'):
            # the contract pins more than the property states (see the property's assumptions): without a
            # failing input for the property itself the run is undecided, not an alarm
            raise Undecided('obligation(s) %s failed, but no failing input for the property itself was found (%s)' % (failed, cfg['no_witness_undecided']))
        if w is None and cfg.get('complete_search'):
            raise Undecided('obligation(s) %s failed but the complete native enumeration finds no failing input' % failed)
        if w is None and cfg.get('kinds') and not any(re.search(cfg['kinds'], k) for k in kinds):
            raise Undecided('obligation(s) %s failed with %s; attributed to a sibling property (no failing input for %s found)' % (failed, kinds, pid))
        detail = '\n'.join(p['detail'] for p in parts if p['detail'])[:8000]
        violations.append(Violation(pid, '+'.join(failed) + ('[' + ';'.join(kinds)[:120] + ']' if kinds else ''), detail, w,
                                    key='+'.join(failed), replay_kind='args'))
    # fixed native probes: inputs of recorded findings (known_findings.txt decides whether they are KNOWN-FINDING lines
    # or violations); a probe that passes prints nothing
    probe_info = []
    if cfg.get('probes'):
        exe = core.build_replay()
        for pr in cfg['probes']:
            p = core.sh([exe] + pr['args'], timeout=600)
            failed_probe = p.returncode == 1 and 'MISMATCH' in p.stdout
            probe_info.append({'key': pr['key'], 'args': ' '.join(pr['args']), 'fails': failed_probe})
            if p.returncode not in (0, 1):
                raise Undecided('probe %s did not run: %s' % (pr['key'], (p.stderr or p.stdout)[-300:]))
            if failed_probe:
                violations.append(Violation(pid, pr['key'], p.stdout[-1500:], {'replay_args': pr['args'], 'expected': pr['what']}, key=pr['key'], replay_kind='args'))
    proved = [p for p in parts if not p.get('is_bounded')]
    bounded = [p for p in parts if p.get('is_bounded')]
    cov = {
        # bounded stand-ins are reported separately and never counted as proved
        'obligations': sum(p['obligations'] for p in proved),
        'discharged': sum(p['discharged'] for p in proved),
        'bounded_stand_ins': {p['name']: {'checks': p['obligations'], 'passed': p['discharged'], 'bound': p['evidence'].get('bounded')} for p in bounded},
        'checker_cmd': cfg.get('checker_cmd', 'verus build/<unit>.rs --output-json --time  /  cargo kani (scratch copy)'),
        'trusted_base': core.TRUSTED_BASE + cfg.get('trusted_extra', []),
        'back_ends': {p['name'] + ' (' + p['engine'] + ')': p['obligations'] for p in parts},
        'parts': {p['name']: p['evidence'] for p in parts},
        'bounded': cfg.get('bounded', []),
        'not_decided': cfg.get('not_decided', []),
        'samples': cfg['samples'],
        'failing_input_search': info,
        'known_finding_probes': probe_info,
        'pinned_assumed_items': pinned,
        'exhaustive': False,
    }
    return core.finish(pid, tier, seed, t0, violations, cov, cfg['assumptions'])
