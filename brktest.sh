#!/bin/bash
# usage: brktest.sh <group> <k> <PROP>...  second-round seeded breakage (sub-agent patches in /tmp/brk_<group>):
# confirms the change in the agent's scratch worktree (demo fails with / passes without, suite passes), stores it in
# /verif/seeded2/<group>_<k>/, applies it to /repo, runs the named checks in dev mode, undoes it. Expected rc=1.
g=$1; k=$2; shift; shift
W=${WPREFIX:-/tmp/brk_}$g
D=/verif/${SEEDDIR:-seeded2}/${g}_$k
mkdir -p $D
if [ -d $W ]; then
  cp $W/break_$k.diff $D/patch.diff; cp $W/demo_break_$k.rs.demo $D/demo.rs
  cd $W && git checkout -q -- . && git apply break_$k.diff && mkdir -p tests && cp demo_break_$k.rs.demo tests/demo_break_$k.rs
  cargo test --offline --test demo_break_$k 2>&1 | grep -E "^test result|panicked" | head -3 > $D/with_change_demo.txt
  cargo test --offline --lib 2>&1 | grep -E "^test result" | head -1 > $D/with_change_suite.txt
  git checkout -q -- .
  cargo test --offline --test demo_break_$k 2>&1 | grep -E "^test result" | head -2 > $D/without_change_demo.txt
  rm -f tests/demo_break_$k.rs
  echo "confirm $g/$k: with=[$(tr '\n' ' ' < $D/with_change_demo.txt | cut -c1-120)] suite=[$(cat $D/with_change_suite.txt)] without=[$(tr '\n' ' ' < $D/without_change_demo.txt)]"
fi
cd /verif
git -C /repo apply $D/patch.diff || exit 9
for id in "$@"; do
  s=$(date +%s)
  VERIF_DEV_RUN=1 /verif/vcheck $id > $D/check_$id.txt 2>&1; rc=$?
  echo "$g/$k $id rc=$rc $(( $(date +%s) - s ))s $(grep -E '^(VIOLATION|UNDECIDED|KNOWN)' $D/check_$id.txt | head -2 | cut -c1-260)"
done
git -C /repo checkout -- . && git -C /repo clean -fdq
git -C /repo status --short
