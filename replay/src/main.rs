//! Re-runs a recorded input against the real crate in /repo (public API only).
use espada::card::Card;
use espada::evaluator::MadeHand;

fn cards7(args: &[String]) -> [Card; 7] {
    let v: Vec<Card> = args.iter().map(|s| s.parse().expect("card")).collect();
    [v[0], v[1], v[2], v[3], v[4], v[5], v[6]]
}

fn main() {
    let args: Vec<String> = std::env::args().collect();
    match args.get(1).map(|s| s.as_str()) {
        Some("eval") => {
            // replay eval As Ks ... (7 cards): prints index and category
            let h: MadeHand = cards7(&args[2..9]).into();
            println!("OBSERVED index={} category={:?}", h.power_index(), h.hand_type());
        }
        _ => {
            eprintln!("usage: replay eval <7 cards>");
            std::process::exit(2);
        }
    }
}
