//! Re-runs a recorded input against the real crate in /repo (public API only).
use espada::card::{Card, Rank, Suit};
use espada::evaluator::{MadeHand, Showdown};
use espada::hand_range::{CardPair, HandRange};

mod search;
#[allow(dead_code)]
#[path = "/repo/examples/multi-thread/scope.rs"]
mod scope;

fn cards7(args: &[String]) -> [Card; 7] {
    let v: Vec<Card> = args.iter().map(|s| s.parse().expect("card")).collect();
    [v[0], v[1], v[2], v[3], v[4], v[5], v[6]]
}

fn main() {
    let args: Vec<String> = std::env::args().collect();
    match args.get(1).map(|s| s.as_str()) {
        Some("eval") => {
            // replay eval As Ks ... (7 cards): prints index and category
            let h: MadeHand = cards7(&args[2..9]).into();
            println!("OBSERVED index={} category={:?}", h.power_index(), h.hand_type());
        }
        Some("showdown") => {
            // replay showdown <5 board cards> <hole cards as 4-char pairs>...
            let board: Vec<Card> = args[2..7].iter().map(|s| s.parse().expect("card")).collect();
            let players: Vec<CardPair> = args[7..].iter().map(|s| s.parse().expect("pair")).collect();
            let r = search::check_showdown(&players, [board[0], board[1], board[2], board[3], board[4]]);
            match r { Ok(s) => println!("OK {}", s), Err(s) => { println!("MISMATCH {}", s); std::process::exit(1); } }
        }
        Some("showdown-search") => {
            let seed: u64 = args[2].parse().unwrap();
            let n: u64 = args[3].parse().unwrap();
            std::process::exit(search::showdown_search(seed, n));
        }
        Some("scopes") => {
            // replay scopes <n>: check the C16 conditions for one worker count
            let n: u32 = args[2].parse().unwrap();
            match search::check_scopes(n) { Ok(s) => println!("OK {}", s), Err(s) => { println!("MISMATCH {}", s); std::process::exit(1); } }
        }
        Some("scopes-search") => {
            let n: u32 = args[3].parse().unwrap();
            for k in 1..=n {
                if let Err(e) = search::check_scopes(k) {
                    println!("WITNESS scopes {} :: {}", k, e);
                    println!("SEARCH tried={} found=1", k);
                    std::process::exit(1);
                }
            }
            println!("SEARCH tried={} found=0", n);
        }
        Some("card-check") => {
            // replay card-check c13|c14 : complete native enumeration of the finite domains
            let r = if args[2] == "c13" { search::check_c13() } else { search::check_c14() };
            match r { Ok(s) => { println!("OK {}", s); println!("SEARCH tried=1 found=0"); }
                      Err(s) => { println!("WITNESS card-check {} :: {}", args[2], s); println!("SEARCH tried=1 found=1"); std::process::exit(1); } }
        }
        Some("c12") => {
            // replay c12 <combo:weight,...>
            let entries: Vec<(CardPair, f32)> = args[2].split(',').filter(|t| !t.is_empty()).map(|t| { let (p, w) = t.split_once(':').unwrap(); (p.parse().unwrap(), w.parse().unwrap()) }).collect();
            match search::check_c12(&entries) { Ok(s) => println!("OK {}", s), Err(s) => { println!("MISMATCH {}", s); std::process::exit(1); } }
        }
        Some("c12-search") => {
            std::process::exit(search::c12_search(args[2].parse().unwrap(), args[3].parse().unwrap()));
        }
        Some("c11") => {
            // replay c11 <perm e.g. 1032> <rot> <flop> full <ranges...>
            let pm: Vec<usize> = args[2].chars().map(|c| c.to_digit(10).unwrap() as usize).collect();
            let rot: usize = args[3].parse().unwrap();
            let case = search::IterCase::parse(&args[4..]);
            match search::check_c11(case.flop, &case.ranges, [pm[0], pm[1], pm[2], pm[3]], rot) { Ok(s) => println!("OK {}", s), Err(s) => { println!("MISMATCH {}", s); std::process::exit(1); } }
        }
        Some("c11-search") => {
            std::process::exit(search::c11_search(args[2].parse().unwrap(), args[3].parse().unwrap()));
        }
        Some("c05-search") => { std::process::exit(search::c05_search(args[2].parse().unwrap(), args[3].parse().unwrap())); }
        Some("parse-search") => { std::process::exit(search::parse_search(args[2].parse().unwrap(), args[3].parse().unwrap(), &args[4])); }
        Some("c05") | Some("parse") => {
            // replay c05 <text>  |  replay parse <c09|c10> <text>   ('_' stands for a space)
            let text = args[args.len() - 1].replace('_', " ");
            println!("input {:?}", text);
            let r = std::panic::catch_unwind(|| {
                println!("as token: {:?}", text.parse::<espada::hand_range::HandRangeToken>().map(|t| t.into_iter().collect::<Vec<_>>()));
                println!("as range: {:?}", text.parse::<HandRange>().map(|r| { let mut v: Vec<String> = r.card_pairs().iter().map(|(a, b)| format!("{}:{}", a, b)).collect(); v.sort(); v }));
            });
            if r.is_err() { println!("PANICKED"); std::process::exit(1); }
        }
        Some("c17") => {
            // replay c17 <seed> <combo:weight,...>
            let entries: Vec<(CardPair, f32)> = args[3].split(',').filter(|t| !t.is_empty()).map(|t| { let (p, w) = t.split_once(':').unwrap(); (p.parse().unwrap(), w.parse().unwrap()) }).collect();
            match search::check_c17(&entries, args[2].parse().unwrap()) { Ok(s) => println!("OK {}", s), Err(s) => { println!("MISMATCH {}", s); std::process::exit(1); } }
        }
        Some("eval-check") => {
            // replay eval-check <c01|c07|both> <7 cards>: compare with the first-principles oracle
            match search::check_eval(&cards7(&args[3..10]), &args[2]) { Ok(s) => println!("OK {}", s), Err(s) => { println!("MISMATCH {}", s); std::process::exit(1); } }
        }
        Some("eval-search") => { std::process::exit(search::eval_search(args[2].parse().unwrap(), args[3].parse().unwrap(), args.get(4).map(|s| s.as_str()).unwrap_or("both"))); }
        Some("c16sum") => {
            // replay c16sum <k> <flop> full <ranges...>
            let case = search::IterCase::parse(&args[3..]);
            let ranges: Vec<espada::hand_range::HandRange> = case.ranges.iter().map(|r| r.iter().cloned().collect()).collect();
            match search::check_c16sum(args[2].parse().unwrap(), &case.flop, &ranges) { Ok(s) => println!("OK {}", s), Err(s) => { println!("MISMATCH {}", s); std::process::exit(1); } }
        }
        Some("c16sum-search") => { std::process::exit(search::c16sum_search(args[2].parse().unwrap(), args[3].parse().unwrap())); }
        Some("c08big") => {
            match search::check_c08big(args[2].parse().unwrap(), args[3].parse().unwrap()) { Ok(s) => println!("OK {}", s), Err(s) => { println!("MISMATCH {}", s); std::process::exit(1); } }
        }
        Some("c08table") => {
            match search::check_c08table(args[2].parse().unwrap(), args[3] == "1") { Ok(s) => println!("OK {}", s), Err(s) => { println!("MISMATCH {}", s); std::process::exit(1); } }
        }
        Some("c08big-search") => { std::process::exit(search::c08big_search()); }
        Some("c06") => {
            // replay c06 <combo:weight,...>
            let entries: Vec<(CardPair, f32)> = args[2].split(',').filter(|t| !t.is_empty()).map(|t| { let (p, w) = t.split_once(':').unwrap(); (p.parse().unwrap(), w.parse().unwrap()) }).collect();
            match search::check_c06(&entries) { Ok(s) => println!("OK {}", s), Err(s) => { println!("MISMATCH {}", s); std::process::exit(1); } }
        }
        Some("c06tok") => {
            // replay c06tok <token text>
            let r = args[2].parse::<espada::hand_range::HandRangeToken>().ok().map(|t| (t.to_string(), t.to_string().parse::<espada::hand_range::HandRangeToken>().ok() == Some(t)));
            match r { Some((_, true)) => println!("OK"), other => { println!("MISMATCH token {:?}: {:?}", args[2], other); std::process::exit(1); } }
        }
        Some("c06-search") => { std::process::exit(search::c06_search(args[2].parse().unwrap(), args[3].parse().unwrap())); }
        Some("c17-search") => { std::process::exit(search::c17_search(args[2].parse().unwrap(), args[3].parse().unwrap())); }
        Some("iter") => {
            // replay iter <c02|c04|c08> <flop> <full|scopes> <ranges...>
            let case = search::IterCase::parse(&args[3..]);
            match search::check_iter(&case, &args[2]) { Ok(s) => println!("OK {}", s), Err(s) => { println!("MISMATCH {}", s); std::process::exit(1); } }
        }
        Some("iter-search") => {
            let seed: u64 = args[2].parse().unwrap();
            let n: u64 = args[3].parse().unwrap();
            let marker = args.get(4).cloned().unwrap_or_default();
            let mode = args.get(5).cloned().unwrap_or("c02".to_string());
            std::process::exit(search::iter_search(seed, n, &marker, &mode));
        }
        _ => {
            eprintln!("usage: replay eval <7 cards> | showdown <board> <pairs> | showdown-search <seed> <n>");
            std::process::exit(2);
        }
    }
}
