//! Failing-input search helpers (NOT the deciding step): small native oracles written directly from
//! the property statements, used only to turn a failed proof obligation into a concrete input.
use espada::card::{Card, Rank, Suit};
use espada::evaluator::{MadeHand, Showdown};
use espada::hand_range::CardPair;

pub struct Rng(pub u64);
impl Rng {
    pub fn next(&mut self) -> u64 {
        // splitmix64
        self.0 = self.0.wrapping_add(0x9E3779B97F4A7C15);
        let mut z = self.0;
        z = (z ^ (z >> 30)).wrapping_mul(0xBF58476D1CE4E5B9);
        z = (z ^ (z >> 27)).wrapping_mul(0x94D049BB133111EB);
        z ^ (z >> 31)
    }
    pub fn below(&mut self, n: u64) -> u64 { self.next() % n }
}

pub const RANKS: [Rank; 13] = [Rank::Ace, Rank::King, Rank::Queen, Rank::Jack, Rank::Ten, Rank::Nine, Rank::Eight,
    Rank::Seven, Rank::Six, Rank::Five, Rank::Four, Rank::Trey, Rank::Deuce];
pub const SUITS: [Suit; 4] = [Suit::Spade, Suit::Heart, Suit::Diamond, Suit::Club];

pub fn card(code: usize) -> Card { Card::new(RANKS[code / 4], SUITS[code % 4]) }

/// C03 oracle, relative to the real evaluator: Ok(description) or Err(what differs)
pub fn check_showdown(players: &Vec<CardPair>, board: [Card; 5]) -> Result<String, String> {
    let desc = format!("board={:?} players={:?}", board, players);
    let collide = players.iter().any(|p| board.contains(&p[0]) || board.contains(&p[1]));
    let sd = std::panic::catch_unwind(|| Showdown::new(players.clone(), board, 0.5));
    let sd = match sd { Ok(x) => x, Err(_) => return Err(format!("{} panicked", desc)) };
    match sd {
        None => if collide { Ok(format!("{} -> None (collision)", desc)) } else { Err(format!("{} -> None but no hole card is on the board", desc)) },
        Some(sd) => {
            if collide { return Err(format!("{} -> Some although a hole card is on the board", desc)); }
            if sd.players().len() != players.len() { return Err(format!("{} -> {} players", desc, sd.players().len())); }
            if sd.board() != &board { return Err(format!("{} -> board changed", desc)); }
            if sd.probability() != 0.5 { return Err(format!("{} -> probability {}", desc, sd.probability())); }
            // what each player's hand evaluates to on the real crate (the showdown must carry exactly that) ...
            let idx: Vec<u16> = players.iter().map(|p| MadeHand::from([p[0], p[1], board[0], board[1], board[2], board[3], board[4]]).power_index()).collect();
            // ... and the TRUE strength (first principles: best of the 21 five-card sub-hands), which decides the winners
            let truth: Vec<u16> = players.iter().map(|p| class7_fp(&[p[0], p[1], board[0], board[1], board[2], board[3], board[4]])).collect();
            let best = *truth.iter().min().unwrap_or(&0);
            let mut wins = 0;
            for (i, sp) in sd.players().iter().enumerate() {
                if sp.hole_cards() != players[i] { return Err(format!("{} -> player {} hole cards {:?}", desc, i, sp.hole_cards())); }
                if sp.board() != board { return Err(format!("{} -> player {} board", desc, i)); }
                if sp.hand().power_index() != idx[i] { return Err(format!("{} -> player {} hand {} want {}", desc, i, sp.hand().power_index(), idx[i])); }
                let want = truth[i] == best;
                if sp.is_winner() != want { return Err(format!("{} -> player {} winner flag {} want {} (true strength classes {:?})", desc, i, sp.is_winner(), want, truth)); }
                if want { wins += 1; }
                let c = sp.cards();
                if c != [board[0], board[1], board[2], board[3], board[4], players[i][0], players[i][1]] { return Err(format!("{} -> player {} cards()", desc, i)); }
            }
            if sd.winner_len() as usize != wins { return Err(format!("{} -> winner_len {} want {}", desc, sd.winner_len(), wins)); }
            if !players.is_empty() && wins == 0 { return Err(format!("{} -> no winner", desc)); }
            Ok(format!("{} -> flags ok, {} winner(s)", desc, wins))
        }
    }
}

pub fn showdown_search(seed: u64, n: u64) -> i32 {
    std::panic::set_hook(Box::new(|_| {}));
    let mut rng = Rng(seed ^ 0xC03);
    let mut tried = 0u64;
    for it in 0..n {
        // deck shuffle (partial)
        let mut deck: Vec<usize> = (0..52).collect();
        for i in 0..20 { let j = i + rng.below((52 - i) as u64) as usize; deck.swap(i, j); }
        let mode = it % 5;
        let mut board = [card(deck[0]), card(deck[1]), card(deck[2]), card(deck[3]), card(deck[4])];
        if mode == 1 {
            // board plays for everyone (broadway straight, mixed suits): multi-way ties
            board = [card(0 * 4 + 0), card(1 * 4 + 1), card(2 * 4 + 2), card(3 * 4 + 3), card(4 * 4 + 0)];
        }
        // mostly 1..6 players; now and then up to 23 (all 47 remaining cards dealt out)
        let np = if rng.below(8) == 0 { 7 + rng.below(17) as usize } else { 1 + rng.below(6) as usize };
        if np > 6 { for i in 0..51 { let j = i + rng.below((52 - i) as u64) as usize; deck.swap(i, j); } if mode != 1 { board = [card(deck[0]), card(deck[1]), card(deck[2]), card(deck[3]), card(deck[4])]; } }
        let mut players = vec![];
        let mut k = 5;
        let used: Vec<Card> = board.to_vec();
        while players.len() < np && k + 1 < (if np > 6 { 52 } else { 20 }) {
            let (a, b) = (card(deck[k]), card(deck[k + 1]));
            k += 2;
            if mode != 4 && (used.contains(&a) || used.contains(&b)) { continue; }
            players.push(CardPair::new(a, b));
        }
        if mode == 2 && players.len() >= 2 {
            // two-way tie: same ranks, other suits, where available
            let p = players[0];
            let alt = |c: Card, s: usize| Card::new(*c.rank(), SUITS[s]);
            for s in 0..4 { for t in 0..4 {
                let (a, b) = (alt(p[0], s), alt(p[1], t));
                if a != b && a != p[0] && a != p[1] && b != p[0] && b != p[1] && !board.contains(&a) && !board.contains(&b) {
                    let last = players.len() - 1;
                    players[last] = CardPair::new(a, b);
                }
            } }
        }
        if mode == 3 && !players.is_empty() {
            // collision with the board at a random player / random card position
            let i = rng.below(players.len() as u64) as usize;
            let bc = board[rng.below(5) as usize];
            let p = players[i];
            players[i] = if rng.below(2) == 0 { CardPair::new(bc, p[1]) } else { CardPair::new(p[0], bc) };
            if players[i][0] == players[i][1] { continue; }
        }
        tried += 1;
        if let Err(e) = check_showdown(&players, board) {
            let b: Vec<String> = board.iter().map(|c| c.to_string()).collect();
            let ps: Vec<String> = players.iter().map(|p| p.to_string()).collect();
            println!("WITNESS showdown {} {} :: {}", b.join(" "), ps.join(" "), e);
            println!("SEARCH tried={} found=1", tried);
            return 1;
        }
    }
    println!("SEARCH tried={} found=0", tried);
    0
}

// ---------------------------------------------------------------------------------------------
// Flop enumeration oracle (C02 / C04 / C08), written from the property statements.
use espada::evaluator::FlopExhaustiveEvaluator;
use espada::hand_range::HandRange;

pub struct IterCase {
    pub flop: [Card; 3],
    pub ranges: Vec<Vec<(CardPair, f32)>>,
    pub scopes: Vec<(u8, u8, u8, u8)>, // chained scopes; empty = unscoped
}

impl IterCase {
    pub fn describe(&self) -> String {
        let f: Vec<String> = self.flop.iter().map(|c| c.to_string()).collect();
        let rs: Vec<String> = self.ranges.iter().map(|r| {
            if r.is_empty() { "-".to_string() } else { r.iter().map(|(p, w)| format!("{}:{}", p, w)).collect::<Vec<_>>().join(",") }
        }).collect();
        let sc: Vec<String> = self.scopes.iter().map(|s| format!("{}.{}.{}.{}", s.0, s.1, s.2, s.3)).collect();
        format!("iter {} {} {}", f.join(""), if sc.is_empty() { "full".to_string() } else { sc.join("/") }, rs.join(" "))
    }

    pub fn parse(args: &[String]) -> IterCase {
        let f = &args[0];
        let flop = [f[0..2].parse().unwrap(), f[2..4].parse().unwrap(), f[4..6].parse().unwrap()];
        let scopes = if args[1] == "full" { vec![] } else {
            args[1].split('/').map(|s| { let v: Vec<u8> = s.split('.').map(|x| x.parse().unwrap()).collect(); (v[0], v[1], v[2], v[3]) }).collect()
        };
        let ranges = args[2..].iter().map(|r| {
            if r == "-" { vec![] } else {
                r.split(',').map(|t| { let (p, w) = t.split_once(':').unwrap(); (p.parse::<CardPair>().unwrap(), w.parse::<f32>().unwrap()) }).collect()
            }
        }).collect();
        IterCase { flop, ranges, scopes }
    }
}

type Deal = ([Card; 5], Vec<CardPair>, f32);

/// every legal deal of positions [from, to), position by position, last player's combo fastest
fn expected(flop: &[Card; 3], entries: &Vec<Vec<(CardPair, f32)>>, from: (u8, u8), to: (u8, u8)) -> Vec<Deal> {
    let deck: Vec<Card> = (0..52).map(card).filter(|c| !flop.contains(c)).collect();
    let mut out = vec![];
    if entries.iter().any(|e| e.is_empty()) { return out; }
    let n = entries.len();
    for t in 0..48u8 { for r in (t + 1)..49u8 {
        if (t, r) < from || (t, r) >= to { continue; }
        let mut idx = vec![0usize; n];
        loop {
            let board = [flop[0], flop[1], flop[2], deck[t as usize], deck[r as usize]];
            let mut cards: Vec<Card> = board.to_vec();
            let mut combos = vec![];
            let mut p: f32 = 1.0;
            for i in 0..n { let e = entries[i][idx[i]]; cards.push(e.0[0]); cards.push(e.0[1]); combos.push(e.0); p *= e.1; }
            let mut d = cards.clone(); d.sort(); d.dedup();
            if d.len() == cards.len() { out.push((board, combos, p)); }
            // odometer
            let mut k = n;
            while k > 0 { if idx[k - 1] + 1 < entries[k - 1].len() { idx[k - 1] += 1; for j in k..n { idx[j] = 0; } break; } k -= 1; }
            if k == 0 { break; }
        }
    } }
    out
}

fn drain(flop: &[Card; 3], ranges: &Vec<HandRange>, scope: Option<(u8, u8, u8, u8)>) -> Vec<Deal> {
    let board = [Some(flop[0]), Some(flop[1]), Some(flop[2]), None, None];
    let mut ev = FlopExhaustiveEvaluator::new(&board, ranges);
    if let Some(s) = scope { ev.scope(s.0, s.1, s.2, s.3); }
    let mut it = ev.into_iter();
    let mut out = vec![];
    // more showdowns than positions x combos means the iterator does not terminate
    let bound = ranges.iter().fold(1176usize, |a, r| a.saturating_mul(r.card_pairs().len().max(1))).saturating_add(8);
    while let Some(sd) = it.next() {
        let combos: Vec<CardPair> = sd.players().iter().map(|p| p.hole_cards()).collect();
        out.push((*sd.board(), combos, sd.probability()));
        if out.len() > bound { panic!("iterator yields more showdowns than positions x combos: not terminating"); }
    }
    // stays exhausted
    for _ in 0..3 { if it.next().is_some() { out.push(([flop[0]; 5], vec![], -1.0)); } }
    out
}

/// Ok(summary) or Err(difference). Entry order inside a range is the HashMap's order, so the
/// comparison is done per board position on the *set* of combos and, for single-combo players and
/// for the overall count, exactly.
fn run_scope(flop: &[Card; 3], ranges: &Vec<HandRange>, sc: Option<(u8, u8, u8, u8)>) -> Result<Vec<Deal>, String> {
    let fl = *flop; let rg = ranges.clone();
    let (tx, rx) = std::sync::mpsc::channel();
    // a default-sized (2 MiB) thread stack, as in the property statement; a watchdog turns
    // non-termination into a reported failure (the runaway thread dies with the process)
    let h = std::thread::Builder::new().stack_size(2 * 1024 * 1024).spawn(move || { let r = drain(&fl, &rg, sc); let _ = tx.send(r); }).unwrap();
    match rx.recv_timeout(std::time::Duration::from_secs(WATCHDOG_S)) {
        Ok(r) => { let _ = h.join(); Ok(r) }
        Err(std::sync::mpsc::RecvTimeoutError::Timeout) => Err(format!("panic-or-hang: scope {:?} did not finish within {} s (non-termination)", sc, WATCHDOG_S)),
        Err(_) => Err(format!("panic while iterating scope {:?}", sc)),
    }
}

pub const WATCHDOG_S: u64 = 30;

fn same(g: &Deal, w: &Deal) -> bool {
    g.0 == w.0 && g.1 == w.1 && (g.2 == w.2 || (g.2.is_nan() && w.2.is_nan()))
}

/// mode "c02": absolute oracle (every legal deal once, in order, right board/combos/probability);
/// mode "c04": relational oracle (a scope yields the unscoped run's showdowns at positions in [from,to));
/// mode "c08": only panics count.
pub fn check_iter(case: &IterCase, mode: &str) -> Result<String, String> {
    let ranges: Vec<HandRange> = case.ranges.iter().map(|r| r.iter().cloned().collect::<HandRange>()).collect();
    // the iterator's own entry order: card_pairs() iteration order, as in the constructor
    let entries: Vec<Vec<(CardPair, f32)>> = ranges.iter().map(|r| r.card_pairs().iter().map(|(a, b)| (*a, *b)).collect()).collect();
    let scopes: Vec<Option<(u8, u8, u8, u8)>> = if case.scopes.is_empty() { vec![None] } else { case.scopes.iter().map(|s| Some(*s)).collect() };
    let deck: Vec<Card> = (0..52).map(card).filter(|c| !case.flop.contains(c)).collect();
    let full = if mode == "c04" { Some(run_scope(&case.flop, &ranges, None)?) } else { None };
    let mut total = 0usize;
    for sc in scopes.iter() {
        let (from, to) = match sc { None => ((0, 1), (48, 49)), Some(s) => ((s.0, s.1), (s.2, s.3)) };
        let got = match run_scope(&case.flop, &ranges, *sc) { Ok(g) => g, Err(e) => return Err(e) };
        if mode == "c08" { total += got.len(); continue; }
        let want: Vec<Deal> = match &full {
            Some(f) => f.iter().filter(|d| {
                let t = deck.iter().position(|c| *c == d.0[3]).unwrap_or(99) as u8;
                let r = deck.iter().position(|c| *c == d.0[4]).unwrap_or(99) as u8;
                (t, r) >= from && (t, r) < to
            }).cloned().collect(),
            None => expected(&case.flop, &entries, from, to),
        };
        if got.len() != want.len() {
            return Err(format!("scope {:?}: {} showdowns, expected {}", sc, got.len(), want.len()));
        }
        // boards must come position by position in enumeration order (C04); WITHIN one board the order of the players'
        // combos is not part of any property, so each board's showdowns are compared as a multiset
        let groups = |v: &Vec<Deal>| -> Vec<([Card; 5], Vec<(String, u32)>)> {
            let mut out: Vec<([Card; 5], Vec<(String, u32)>)> = vec![];
            for d in v.iter() {
                let key = (format!("{:?}", d.1), if d.2.is_nan() { u32::MAX } else { d.2.to_bits() });
                match out.last_mut() { Some(l) if l.0 == d.0 => l.1.push(key), _ => out.push((d.0, vec![key])) }
            }
            for g in out.iter_mut() { g.1.sort(); }
            out
        };
        let (gg, gw) = (groups(&got), groups(&want));
        for (k, (g, w)) in gg.iter().zip(gw.iter()).enumerate() {
            if g.0 != w.0 { return Err(format!("scope {:?}: board #{} is {:?}, expected {:?}", sc, k, g.0, w.0)); }
            if g.1 != w.1 {
                let bad = g.1.iter().zip(w.1.iter()).find(|(a, b)| a != b).map(|(a, b)| format!("{} p={} where {} p={} is expected", a.0, f32::from_bits(a.1), b.0, f32::from_bits(b.1))).unwrap_or_else(|| format!("{} showdowns, expected {}", g.1.len(), w.1.len()));
                return Err(format!("scope {:?}: board {:?}: {}", sc, g.0, bad));
            }
        }
        if gg.len() != gw.len() { return Err(format!("scope {:?}: {} boards, expected {}", sc, gg.len(), gw.len())); }
        total += got.len();
    }
    if mode == "c04" && case.scopes.len() > 1 {
        // the chain as a whole reproduces the unscoped run
        if total != full.as_ref().unwrap().len() { return Err(format!("chained scopes yield {} showdowns, the full run {}", total, full.unwrap().len())); }
    }
    Ok(format!("{} showdowns match", total))
}

fn rand_pos(rng: &mut Rng) -> (u8, u8) {
    let t = rng.below(48) as u8;
    let r = t + 1 + rng.below((48 - t) as u64) as u8;
    (t, r)
}

pub fn gen_iter_case(rng: &mut Rng, it: u64) -> IterCase {
    let mut deck: Vec<usize> = (0..52).collect();
    for i in 0..51 { let j = i + rng.below((52 - i) as u64) as usize; deck.swap(i, j); }
    let flop = [card(deck[0]), card(deck[1]), card(deck[2])];
    let mode = it % 8;
    let np = match rng.below(12) { 0 => 0, 1 => 4, _ => 1 + rng.below(3) as usize };   // also no player at all, and four
    let mut ranges = vec![];
    for p in 0..np {
        let size = match mode {
            0 => 1,
            1 => 1 + rng.below(3) as usize,
            2 => if p == 0 { 0 } else { 2 },            // empty range
            3 => if p == 0 { 300 } else { 1 },          // more than 255 combos
            4 => if p == 0 { 256 } else { 1 },
            5 => if p == 0 { 1 } else { 40 },           // narrow beside wide: long blocked runs
            _ => 1 + rng.below(6) as usize,
        };
        let size = if np >= 4 { size.min(3) } else { size };   // four players: keep the product of range sizes small
        let mut r: Vec<(CardPair, f32)> = vec![];
        let mut guard = 0;
        while r.len() < size && guard < 100000 {
            guard += 1;
            // draw from a small pool so that players overlap each other and the flop
            let pool = if mode == 3 || mode == 4 || mode == 5 { 52 } else { 12 };
            let a = card(deck[rng.below(pool) as usize]);
            let b = card(deck[rng.below(pool) as usize]);
            if a == b { continue; }
            let cp = CardPair::new(a, b);
            if r.iter().any(|x| x.0 == cp) { continue; }
            let w = [1.0f32, 0.5, 0.25, 0.75, 0.0][rng.below(5) as usize];   // weight 0 is a weight like any other: the deal is still enumerated
            r.push((cp, w));
        }
        ranges.push(r);
    }
    let mut scopes = vec![];
    if it % 3 == 1 {
        // a chain of consecutive scopes from (0,1) to (48,49)
        let mut cuts: Vec<(u8, u8)> = (0..(1 + rng.below(4))).map(|_| rand_pos(rng)).collect();
        cuts.sort();
        let mut prev = (0u8, 1u8);
        for c in cuts { scopes.push((prev.0, prev.1, c.0, c.1)); prev = c; }
        scopes.push((prev.0, prev.1, 48, 49));
    } else if it % 3 == 2 {
        let a = rand_pos(rng); let b = rand_pos(rng);
        let (a, b) = if a <= b { (a, b) } else { (b, a) };
        match rng.below(6) {
            0 => scopes.push((a.0, a.1, a.0, a.1)),                                   // an empty scope
            1 => scopes.push((48, 49, 48, 49)),                                       // ... at the terminal position
            2 => { scopes.push((0, 1, a.0, a.1)); scopes.push((a.0, a.1, a.0, a.1)); scopes.push((a.0, a.1, 48, 49)); }   // a chain with an empty link
            _ => scopes.push((a.0, a.1, b.0, b.1)),
        }
    }
    IterCase { flop, ranges, scopes }
}

pub fn iter_search(seed: u64, n: u64, marker: &str, mode: &str) -> i32 {
    std::panic::set_hook(Box::new(|_| {}));
    let mut rng = Rng(seed ^ 0xC02);
    for it in 0..n {
        let case = gen_iter_case(&mut rng, it);
        if mode == "c02" && !case.scopes.is_empty() { continue; }
        if mode == "c04" && case.scopes.is_empty() { continue; }
        let d = format!("{} {}", case.describe().replacen("iter ", &format!("iter {} ", mode), 1), "");
        let d = d.trim().to_string();
        if !marker.is_empty() { let _ = std::fs::write(marker, &d); }
        let res = check_iter(&case, mode);
        let res = match res { Err(e) if mode == "c08" && !e.starts_with("panic") => Ok(e), x => x };
        if let Err(e) = res {
            println!("WITNESS {} :: {}", d, e);
            println!("SEARCH tried={} found=1", it + 1);
            return 1;
        }
    }
    println!("SEARCH tried={} found=0", n);
    0
}


// ---------------------------------------------------------------------------------------------
// C16 oracle
pub fn check_scopes(n: u32) -> Result<String, String> {
    let v = match std::panic::catch_unwind(|| crate::scope::calculate_scopes(n)) { Ok(v) => v, Err(_) => return Err(format!("calculate_scopes({}) panicked", n)) };
    let pos = |t: u8, r: u8| (t < r && r <= 48) || (t == 48 && r == 49);
    if v.len() != n as usize { return Err(format!("{} scopes for n={}", v.len(), n)); }
    if (v[0].turn_from, v[0].river_from) != (0, 1) { return Err(format!("first scope starts at ({},{})", v[0].turn_from, v[0].river_from)); }
    let l = v[v.len() - 1];
    if (l.turn_to, l.river_to) != (48, 49) { return Err(format!("last scope ends at ({},{})", l.turn_to, l.river_to)); }
    for (k, s) in v.iter().enumerate() {
        if !pos(s.turn_from, s.river_from) || !pos(s.turn_to, s.river_to) { return Err(format!("scope[{}] = ({},{})..({},{}) names an invalid position", k, s.turn_from, s.river_from, s.turn_to, s.river_to)); }
        if (s.turn_from, s.river_from) > (s.turn_to, s.river_to) { return Err(format!("scope[{}] steps backwards", k)); }
        if k + 1 < v.len() && (v[k + 1].turn_from, v[k + 1].river_from) != (s.turn_to, s.river_to) { return Err(format!("scope[{}] does not start where scope[{}] ended", k + 1, k)); }
    }
    Ok(format!("n={} tiles", n))
}

// ---------------------------------------------------------------------------------------------
// C13 / C14: complete native enumeration of the finite domains (mirror of the Kani harnesses);
// only used to produce a concrete failing input after a harness failed.
use espada::card::{RankRange, SuitRange};
use std::str::FromStr;

const RANK_CH: [char; 13] = ['A', 'K', 'Q', 'J', 'T', '9', '8', '7', '6', '5', '4', '3', '2'];
const SUIT_CH: [char; 4] = ['s', 'h', 'd', 'c'];

fn guard<F: FnOnce() -> Result<(), String> + std::panic::UnwindSafe>(what: String, f: F) -> Result<(), String> {
    match std::panic::catch_unwind(f) { Ok(r) => r, Err(_) => Err(format!("{}: panicked", what)) }
}

pub fn check_c13() -> Result<String, String> {
    std::panic::set_hook(Box::new(|_| {}));
    let mut n = 0u64;
    for rc in 0..13usize { for sc in 0..4usize {
        let (r, s) = (RANKS[rc], SUITS[sc]);
        let c = Card::new(r, s);
        n += 1;
        guard(format!("card {}", rc * 4 + sc), move || {
            if u8::from(&r) as usize != rc || u8::from(&s) as usize != sc { return Err(format!("code of rank {} / suit {}", rc, sc)); }
            if char::from(&r) != RANK_CH[rc] || char::from(&s) != SUIT_CH[sc] { return Err(format!("char of rank {} / suit {}", rc, sc)); }
            if Rank::try_from(RANK_CH[rc]) != Ok(r) || Suit::try_from(SUIT_CH[sc]) != Ok(s) { return Err(format!("try_from char of rank {} / suit {}", rc, sc)); }
            let bit = u64::from(&c);
            if bit != 1u64 << (4 * rc + sc) { return Err(format!("u64::from(card {}{}) = {:#x}, expected bit {}", RANK_CH[rc], SUIT_CH[sc], bit, 4 * rc + sc)); }
            if Card::from(&bit) != c { return Err(format!("Card::from(u64::from({}{})) differs", RANK_CH[rc], SUIT_CH[sc])); }
            let text = c.to_string();
            if text != format!("{}{}", RANK_CH[rc], SUIT_CH[sc]) { return Err(format!("text of card is {:?}", text)); }
            if text.parse::<Card>().ok() != Some(c) { return Err(format!("{:?} does not parse back", text)); }
            match r.next() { Some(x) => if rc == 12 || u8::from(x) as usize != rc + 1 { return Err(format!("next of rank {}", rc)); }, None => if rc != 12 { return Err(format!("next of rank {}", rc)); } }
            match r.prev() { Some(x) => if rc == 0 || u8::from(x) as usize + 1 != rc { return Err(format!("prev of rank {}", rc)); }, None => if rc != 0 { return Err(format!("prev of rank {}", rc)); } }
            Ok(())
        })?;
        for rc2 in 0..13usize { for sc2 in 0..4usize {
            let c2 = Card::new(RANKS[rc2], SUITS[sc2]);
            n += 1;
            if c.cmp(&c2) != (rc, sc).cmp(&(rc2, sc2)) || (c == c2) != ((rc, sc) == (rc2, sc2)) || (c < c2) != ((rc, sc) < (rc2, sc2)) { return Err(format!("order of {} and {}", c, c2)); }
            if RANKS[rc].cmp(&RANKS[rc2]) != rc.cmp(&rc2) || SUITS[sc].cmp(&SUITS[sc2]) != sc.cmp(&sc2) { return Err(format!("rank/suit order {} {}", c, c2)); }
        } }
    } }
    for k in 0..52u32 {
        n += 1;
        let bit = 1u64 << k;
        guard(format!("bit {}", k), move || { let c = Card::from(&bit); if u64::from(&c) != bit { Err(format!("bit {} -> {} -> {:#x}", k, c, u64::from(&c))) } else { Ok(()) } })?;
    }
    for cp in 0..0x110000u32 {
        if let Some(ch) = char::from_u32(cp) {
            n += 1;
            let rk = Rank::try_from(ch);
            if rk.is_ok() != RANK_CH.contains(&ch) || rk.map(|r| char::from(r) != ch).unwrap_or(false) { return Err(format!("Rank::try_from({:?})", ch)); }
            let st = Suit::try_from(ch);
            if st.is_ok() != SUIT_CH.contains(&ch) || st.map(|s| char::from(s) != ch).unwrap_or(false) { return Err(format!("Suit::try_from({:?})", ch)); }
        }
    }
    for a in 0..128u8 {
        n += 1;
        let s1 = String::from_utf8(vec![a]).unwrap();
        guard(format!("parse {:?}", s1), { let s1 = s1.clone(); move || if Card::from_str(&s1).is_ok() { Err(format!("{:?} accepted as a card", s1)) } else { Ok(()) } })?;
        for b in 0..128u8 {
            n += 1;
            let s2 = String::from_utf8(vec![a, b]).unwrap();
            let want = RANK_CH.iter().position(|c| *c == a as char).zip(SUIT_CH.iter().position(|c| *c == b as char));
            guard(format!("parse {:?}", s2), { let s2 = s2.clone(); move || {
                let got = Card::from_str(&s2).ok().map(|c| (u8::from(c.rank()) as usize, u8::from(c.suit()) as usize));
                if got != want { Err(format!("Card::from_str({:?}) = {:?}, expected {:?}", s2, got, want)) } else { Ok(()) }
            } })?;
        }
    }
    for a in 0..13usize { for b in a..13usize {
        n += 1;
        guard(format!("RankRange {}..{}", a, b), move || {
            let v: Vec<usize> = RankRange::inclusive(RANKS[a], RANKS[b]).into_iter().map(|r| u8::from(r) as usize).collect();
            if v != (a..=b).collect::<Vec<_>>() { return Err(format!("RankRange::inclusive({},{}) = {:?}", a, b, v)); }
            let w: Vec<usize> = RankRange::new(RANKS[a], RANKS[b]).into_iter().map(|r| u8::from(r) as usize).collect();
            if w != (a..b).collect::<Vec<_>>() { return Err(format!("RankRange::new({},{}) = {:?}", a, b, w)); }
            Ok(())
        })?;
    } }
    for a in 0..4usize { for b in a..4usize {
        n += 1;
        guard(format!("SuitRange {}..{}", a, b), move || {
            let v: Vec<usize> = SuitRange::inclusive(SUITS[a], SUITS[b]).into_iter().map(|r| u8::from(r) as usize).collect();
            if v != (a..=b).collect::<Vec<_>>() { return Err(format!("SuitRange::inclusive({},{}) = {:?}", a, b, v)); }
            let w: Vec<usize> = SuitRange::new(SUITS[a], SUITS[b]).into_iter().map(|r| u8::from(r) as usize).collect();
            if w != (a..b).collect::<Vec<_>>() { return Err(format!("SuitRange::new({},{}) = {:?}", a, b, w)); }
            Ok(())
        })?;
    } }
    let all: Vec<usize> = RankRange::all().into_iter().map(|r| u8::from(r) as usize).collect();
    if all != (0..13).collect::<Vec<_>>() { return Err(format!("RankRange::all() = {:?}", all)); }
    let alls: Vec<usize> = SuitRange::all().into_iter().map(|r| u8::from(r) as usize).collect();
    if alls != (0..4).collect::<Vec<_>>() { return Err(format!("SuitRange::all() = {:?}", alls)); }
    Ok(format!("{} cases", n))
}

pub fn check_c14() -> Result<String, String> {
    std::panic::set_hook(Box::new(|_| {}));
    let mut n = 0u64;
    for x in 0..52usize { for y in 0..52usize {
        n += 1;
        let (a, b) = (card(x), card(y));
        guard(format!("pair {} {}", a, b), move || {
            let (p, q) = (CardPair::new(a, b), CardPair::new(b, a));
            if p != q { return Err(format!("new({},{}) != new({},{})", a, b, b, a)); }
            if p[0] > p[1] { return Err(format!("new({},{}) is not ordered", a, b)); }
            if !((p[0] == a && p[1] == b) || (p[0] == b && p[1] == a)) { return Err(format!("new({},{}) holds other cards", a, b)); }
            if fxhash::hash64(&p) != fxhash::hash64(&q) { return Err(format!("hash of new({},{}) and new({},{}) differ", a, b, b, a)); }
            if a != b {
                let t = p.to_string();
                if t.parse::<CardPair>().ok() != Some(p) { return Err(format!("{:?} does not parse back to the pair", t)); }
            }
            let (t1, t2) = (format!("{}{}", a, b), format!("{}{}", b, a));
            match (t1.parse::<CardPair>(), t2.parse::<CardPair>()) {
                (Ok(u), Ok(v)) => if u != v || u != p { return Err(format!("{:?} and {:?} parse to different pairs", t1, t2)); },
                _ => return Err(format!("{:?} or {:?} does not parse", t1, t2)),
            }
            Ok(())
        })?;
    } }
    Ok(format!("{} cases", n))
}

// ---------------------------------------------------------------------------------------------
// C12 oracle: a range splits into complete rank pairs and leftovers
use espada::hand_range::RankPair;

fn all_rank_pairs() -> Vec<RankPair> {
    let mut v = vec![];
    for a in 0..13 { v.push(RankPair::Pocket(RANKS[a])); }
    for a in 0..13 { for b in (a + 1)..13 { v.push(RankPair::Suited(RANKS[a], RANKS[b])); v.push(RankPair::Ofsuit(RANKS[a], RANKS[b])); } }
    v
}

fn combos_fp(rp: RankPair) -> Vec<CardPair> {
    // first principles: all suit assignments the notation denotes
    let mut v = vec![];
    match rp {
        RankPair::Pocket(r) => { for i in 0..4 { for j in (i + 1)..4 { v.push(CardPair::new(Card::new(r, SUITS[i]), Card::new(r, SUITS[j]))); } } }
        RankPair::Suited(h, k) => { for i in 0..4 { v.push(CardPair::new(Card::new(h, SUITS[i]), Card::new(k, SUITS[i]))); } }
        RankPair::Ofsuit(h, k) => { for i in 0..4 { for j in 0..4 { if i != j { v.push(CardPair::new(Card::new(h, SUITS[i]), Card::new(k, SUITS[j]))); } } } }
    }
    v
}

pub fn check_c12(entries: &Vec<(CardPair, f32)>) -> Result<String, String> {
    let range: HandRange = entries.iter().cloned().collect();
    let m = range.card_pairs();
    let (rps, orph) = match std::panic::catch_unwind(|| (range.rank_pairs(), range.orphan_card_pairs())) { Ok(x) => x, Err(_) => return Err("rank_pairs / orphan_card_pairs panicked".to_string()) };
    let mut covered = std::collections::HashSet::new();
    for rp in all_rank_pairs() {
        let cs = combos_fp(rp);
        let first = m.get(&cs[0]).copied();
        let complete = first.is_some() && cs.iter().all(|c| m.get(c).map(|w| *w == first.unwrap()).unwrap_or(false));
        match rps.get(&rp) {
            Some(w) => {
                if !complete { return Err(format!("{} reported with weight {} but its combos are not all present with one weight", rp, w)); }
                if Some(*w) != first && !(w.is_nan() && first.unwrap().is_nan()) { return Err(format!("{} reported with weight {} but its combos carry {:?}", rp, w, first)); }
            }
            None => if complete { return Err(format!("{} is complete (weight {:?}) but not reported", rp, first)); },
        }
        if complete { for c in cs { covered.insert(c); } }
    }
    if rps.len() != all_rank_pairs().iter().filter(|rp| rps.contains_key(rp)).count() { return Err("rank_pairs() reports a rank pair outside pocket/suited/offsuit with the high card first".to_string()); }
    for (cp, w) in m.iter() {
        let o = orph.get(cp);
        if covered.contains(cp) { if o.is_some() { return Err(format!("{} is covered by a reported rank pair but also a leftover", cp)); } }
        else { match o { None => return Err(format!("{} is in the range, not covered, and missing from the leftovers", cp)),
                         Some(x) => if x != w && !(x.is_nan() && w.is_nan()) { return Err(format!("leftover {} has weight {} instead of {}", cp, x, w)); } } }
    }
    for cp in orph.keys() { if !m.contains_key(cp) { return Err(format!("leftover {} is not in the range", cp)); } }
    Ok(format!("{} combos, {} rank pairs, {} leftovers", m.len(), rps.len(), orph.len()))
}

pub fn c12_search(seed: u64, n: u64) -> i32 {
    std::panic::set_hook(Box::new(|_| {}));
    let mut rng = Rng(seed ^ 0xC12);
    let rps = all_rank_pairs();
    for it in 0..n {
        // a few rank pairs, each with an absent / weight-a / weight-b pattern over its combos
        let mut entries: Vec<(CardPair, f32)> = vec![];
        let k = 1 + rng.below(4);
        for _ in 0..k {
            let rp = rps[rng.below(rps.len() as u64) as usize];
            let mode = rng.below(4);
            // weight a / weight b: far apart, or one unit in the last place apart (a tolerance-based comparison is not equality)
            let (wa, wb) = match rng.below(5) {
                0 => (0.5f32, f32::from_bits(0.5f32.to_bits() + 1)),
                1 => (1.0f32, f32::from_bits(1.0f32.to_bits() - 1)),
                2 => (0.0f32, f32::from_bits(1)),
                _ => (0.5f32, 0.25f32),
            };
            for c in combos_fp(rp) {
                let pick = match mode { 0 => 1, 1 => rng.below(3), 2 => 1 + rng.below(2) / 1 * (rng.below(8) == 0) as u64, _ => (rng.below(6) != 0) as u64 };
                if pick == 0 { continue; }
                let w = if pick == 1 { wa } else { wb };
                if !entries.iter().any(|e| e.0 == c) { entries.push((c, w)); }
            }
        }
        if let Err(e) = check_c12(&entries) {
            let d: Vec<String> = entries.iter().map(|(p, w)| format!("{}:{}", p, w)).collect();
            println!("WITNESS c12 {} :: {}", d.join(","), e);
            println!("SEARCH tried={} found=1", it + 1);
            return 1;
        }
    }
    println!("SEARCH tried={} found=0", n);
    0
}

// ---------------------------------------------------------------------------------------------
// C11 oracle: tallies are invariant under suit relabelling and follow player reordering
fn tallies(flop: &[Card; 3], ranges: &Vec<HandRange>) -> Result<Vec<Vec<u64>>, String> {
    // per player: [outright wins, 2-way ties, 3-way ties, ...], plus total showdowns in slot 0 of an extra row
    let n = ranges.len();
    let board = [Some(flop[0]), Some(flop[1]), Some(flop[2]), None, None];
    let mut t = vec![vec![0u64; n + 1]; n + 1];
    for sd in FlopExhaustiveEvaluator::new(&board, ranges) {
        let flagged = sd.players().iter().filter(|p| p.is_winner()).count();
        if (flagged == 0 && !sd.players().is_empty()) || flagged != sd.winner_len() as usize { return Err(format!("showdown with {} flagged winners and winner_len {}", flagged, sd.winner_len())); }
        for (i, p) in sd.players().iter().enumerate() { if p.is_winner() { t[i][flagged] += 1; } }
        t[n][0] += 1;
    }
    Ok(t)
}

fn relabel_card(c: Card, perm: &[usize; 4]) -> Card {
    Card::new(*c.rank(), SUITS[perm[u8::from(c.suit()) as usize]])
}

pub fn check_c11(flop: [Card; 3], entries: &Vec<Vec<(CardPair, f32)>>, perm: [usize; 4], rot: usize) -> Result<String, String> {
    let ranges: Vec<HandRange> = entries.iter().map(|r| r.iter().cloned().collect()).collect();
    let base = tallies(&flop, &ranges)?;
    let flop2 = [relabel_card(flop[0], &perm), relabel_card(flop[1], &perm), relabel_card(flop[2], &perm)];
    let ranges2: Vec<HandRange> = entries.iter().map(|r| r.iter().map(|(p, w)| (CardPair::new(relabel_card(p[0], &perm), relabel_card(p[1], &perm)), *w)).collect()).collect();
    let rel = tallies(&flop2, &ranges2)?;
    if rel != base { return Err(format!("suit relabelling {:?} changes the tallies: {:?} vs {:?}", perm, base, rel)); }
    let n = ranges.len();
    let ranges3: Vec<HandRange> = (0..n).map(|i| ranges[(i + rot) % n].clone()).collect();
    let per = tallies(&flop, &ranges3)?;
    for i in 0..n { if per[i] != base[(i + rot) % n] { return Err(format!("rotating the players by {} does not rotate the tallies: {:?} vs {:?}", rot, base, per)); } }
    if per[n] != base[n] { return Err("player order changes the number of showdowns".to_string()); }
    Ok(format!("{} showdowns", base[n][0]))
}

pub fn c11_search(seed: u64, n: u64) -> i32 {
    std::panic::set_hook(Box::new(|_| {}));
    let mut rng = Rng(seed ^ 0xC11);
    let perms: Vec<[usize; 4]> = { let mut v = vec![]; for a in 0..4 { for b in 0..4 { for c in 0..4 { for d in 0..4 { let p = [a, b, c, d]; let mut s = p.to_vec(); s.sort(); if s == vec![0, 1, 2, 3] { v.push(p); } } } } } v };
    for it in 0..n {
        let mut case = gen_iter_case(&mut rng, 6 + (it % 2) * 0 + 1); // small ranges (mode 7 / 1)
        case.scopes.clear();
        if it % 40 == 7 {
            // many players with one combo each (17..=22 seats, all cards different)
            let mut deck: Vec<usize> = (0..52).collect();
            for i in 0..51 { let j = i + rng.below((52 - i) as u64) as usize; deck.swap(i, j); }
            case.flop = [card(deck[0]), card(deck[1]), card(deck[2])];
            let seats = 17 + rng.below(6) as usize;
            case.ranges = (0..seats).map(|s| vec![(CardPair::new(card(deck[3 + 2 * s]), card(deck[4 + 2 * s])), 1.0f32)]).collect();
        }
        if case.ranges.iter().any(|r| r.len() > 8) { continue; }
        let perm = perms[rng.below(24) as usize];
        let rot = 1 + rng.below(case.ranges.len().max(1) as u64) as usize;
        let (fl, rg) = (case.flop, case.ranges.clone());
        let res = match std::panic::catch_unwind(move || check_c11(fl, &rg, perm, rot)) { Ok(r) => r, Err(_) => Err("panicked while enumerating or tallying".to_string()) };
        if let Err(e) = res {
            let d = case.describe();
            println!("WITNESS c11 {}{}{}{} {} {} :: {}", perm[0], perm[1], perm[2], perm[3], rot, d.trim_start_matches("iter "), e);
            println!("SEARCH tried={} found=1", it + 1);
            return 1;
        }
    }
    println!("SEARCH tried={} found=0", n);
    0
}

// ---------------------------------------------------------------------------------------------
// C05 / C09 / C10 oracles: range notation
use espada::hand_range::HandRangeToken;

fn rc(i: usize) -> char { RANK_CH[i] }

/// first-principles expansion of a well-formed token text (without weight): the combos it denotes
fn denoted(kind: usize, a: usize, b: usize, e: usize, s1: usize, s2: usize) -> (String, Vec<CardPair>) {
    let pocket = |r: usize| combos_fp(RankPair::Pocket(RANKS[r]));
    let suited = |h: usize, k: usize| combos_fp(RankPair::Suited(RANKS[h], RANKS[k]));
    let ofsuit = |h: usize, k: usize| combos_fp(RankPair::Ofsuit(RANKS[h], RANKS[k]));
    match kind {
        0 => (format!("{}{}", rc(a), rc(a)), pocket(a)),
        1 => (format!("{}{}+", rc(a), rc(a)), (0..=a).flat_map(|r| pocket(r)).collect()),
        2 => (format!("{}{}-{}{}", rc(a), rc(a), rc(b), rc(b)), (a..=b).flat_map(|r| pocket(r)).collect()),           // a <= b
        3 => (format!("{}{}s", rc(a), rc(b)), suited(a, b)),                                                        // a < b
        4 => (format!("{}{}o", rc(a), rc(b)), ofsuit(a, b)),
        5 => (format!("{}{}s+", rc(a), rc(b)), ((a + 1)..=b).flat_map(|k| suited(a, k)).collect()),
        6 => (format!("{}{}o+", rc(a), rc(b)), ((a + 1)..=b).flat_map(|k| ofsuit(a, k)).collect()),
        7 => (format!("{}{}s-{}{}s", rc(a), rc(b), rc(a), rc(e)), (b..=e).flat_map(|k| suited(a, k)).collect()),     // a < b < e
        8 => (format!("{}{}o-{}{}o", rc(a), rc(b), rc(a), rc(e)), (b..=e).flat_map(|k| ofsuit(a, k)).collect()),
        _ => (format!("{}{}{}{}", rc(a), SUIT_CH[s1], rc(b), SUIT_CH[s2]), vec![CardPair::new(Card::new(RANKS[a], SUITS[s1]), Card::new(RANKS[b], SUITS[s2]))]),
    }
}

fn all_token_shapes() -> Vec<(String, Vec<CardPair>)> {
    let mut v = vec![];
    for a in 0..13 { v.push(denoted(0, a, 0, 0, 0, 0)); v.push(denoted(1, a, 0, 0, 0, 0)); for b in a..13 { v.push(denoted(2, a, b, 0, 0, 0)); } }
    for a in 0..13 { for b in (a + 1)..13 {
        for k in 3..=6 { v.push(denoted(k, a, b, 0, 0, 0)); }
        for e in (b + 1)..13 { v.push(denoted(7, a, b, e, 0, 0)); v.push(denoted(8, a, b, e, 0, 0)); }
    } }
    for a in 0..13 { for s1 in 0..4 { for b in 0..13 { for s2 in 0..4 { if (a, s1) != (b, s2) { v.push(denoted(9, a, b, 0, s1, s2)); } } } } }
    v
}

fn same_set(got: &Vec<(CardPair, f32)>, want: &Vec<CardPair>, w: f32) -> Result<(), String> {
    let mut g: Vec<String> = got.iter().map(|(p, x)| format!("{}:{}", p, x)).collect();
    let mut e: Vec<String> = want.iter().map(|p| format!("{}:{}", p, w)).collect();
    g.sort(); g.dedup(); e.sort(); e.dedup();
    if g != e { return Err(format!("expands to {} entries {:?}..., expected {} entries {:?}...", g.len(), &g[..g.len().min(3)], e.len(), &e[..e.len().min(3)])); }
    if got.len() != g.len() { return Err("expansion lists a combo twice".to_string()); }
    Ok(())
}

pub fn c05_search(seed: u64, n: u64) -> i32 {
    std::panic::set_hook(Box::new(|_| {}));
    let shapes = all_token_shapes();
    let weights: [(&str, f32); 5] = [("", 1.0), (":1", 1.0), (":0", 0.0), (":0.5", 0.5), (":0.25", 0.25)];
    let mut tried = 0u64;
    for (text, want) in shapes.iter() {
        for (wt, w) in weights.iter() {
            tried += 1;
            let t = format!("{}{}", text, wt);
            let r = std::panic::catch_unwind(|| -> Result<(), String> {
                let tok = t.parse::<HandRangeToken>().map_err(|_| "rejected as a token".to_string())?;
                let got: Vec<(CardPair, f32)> = tok.into_iter().collect();
                same_set(&got, want, *w)?;
                let range: HandRange = t.parse().map_err(|_| "rejected as a range".to_string())?;
                let got: Vec<(CardPair, f32)> = range.card_pairs().iter().map(|(a, b)| (*a, *b)).collect();
                same_set(&got, want, *w)
            });
            let r = match r { Ok(x) => x, Err(_) => Err("panicked".to_string()) };
            if let Err(e) = r { println!("WITNESS c05 {} :: token {:?} {}", t, t, e); println!("SEARCH tried={} found=1", tried); return 1; }
        }
    }
    // list level: later tokens overwrite, spaces ignored, empty string is the empty range
    let mut rng = Rng(seed ^ 0xC05);
    if "".parse::<HandRange>().map(|r| r.card_pairs().len()).unwrap_or(99) != 0 { println!("WITNESS c05 - :: the empty string is not the empty range"); return 1; }
    for _ in 0..n {
        tried += 1;
        let k = 1 + rng.below(5) as usize;
        let mut text = String::new();
        let mut want: std::collections::HashMap<String, f32> = std::collections::HashMap::new();
        let mut chosen: Vec<(usize, usize)> = vec![];
        for i in 0..k {
            // a fresh token, or (to force overlaps) an earlier token of this list again: the same text, or the same
            // shape with another weight -- the later occurrence must still win
            let (si, wi) = match (i, rng.below(3)) {
                (0, _) | (_, 0) => (rng.below(shapes.len() as u64) as usize, rng.below(5) as usize),
                (_, 1) => chosen[rng.below(i as u64) as usize],
                _ => (chosen[rng.below(i as u64) as usize].0, rng.below(5) as usize),
            };
            chosen.push((si, wi));
            let (t, combos) = &shapes[si];
            let (wt, w) = weights[wi];
            if i > 0 { text.push_str(if rng.below(2) == 0 { "," } else { " , " }); }
            text.push_str(t); text.push_str(wt);
            for c in combos { want.insert(c.to_string(), w); }
        }
        if rng.below(8) == 0 {
            // the whole deck first (all pockets, all suited and offsuit rows), then the list: later tokens must still win
            let mut full = String::from("22+");
            for h in 0..12 { full.push_str(&format!(",{}2s+,{}2o+", rc(h), rc(h))); }
            for (t0, combos) in shapes.iter().take(0) { let _ = (t0, combos); }
            let mut w2: std::collections::HashMap<String, f32> = std::collections::HashMap::new();
            for rp in all_rank_pairs() { for c in combos_fp(rp) { w2.insert(c.to_string(), 1.0); } }
            for (k, v) in want.iter() { w2.insert(k.clone(), *v); }
            want = w2;
            text = format!("{},{}", full, text);
        }
        let r = std::panic::catch_unwind(|| text.parse::<HandRange>());
        let ok = match r {
            Ok(Ok(range)) => {
                let got: std::collections::HashMap<String, f32> = range.card_pairs().iter().map(|(a, b)| (a.to_string(), *b)).collect();
                if got == want { Ok(()) } else { Err(format!("parses to {} combos, expected {} (later token's weight applies)", got.len(), want.len())) }
            }
            Ok(Err(_)) => Err("rejected".to_string()),
            Err(_) => Err("panicked".to_string()),
        };
        if let Err(e) = ok { println!("WITNESS c05 {} :: range {:?} {}", text.replace(' ', "_"), text, e); println!("SEARCH tried={} found=1", tried); return 1; }
    }
    println!("SEARCH tried={} found=0", tried);
    0
}

fn gen_strings(rng: &mut Rng, n: u64) -> Vec<String> {
    let alpha: Vec<char> = "AKQ92shdco+-:.015 ,é".chars().collect();
    let mut v = vec![];
    // every string up to 3 characters over the alphabet
    for a in 0..=alpha.len() { for b in 0..=alpha.len() { for c in 0..=alpha.len() {
        let mut s = String::new();
        if a < alpha.len() { s.push(alpha[a]); } if b < alpha.len() { s.push(alpha[b]); } if c < alpha.len() { s.push(alpha[c]); }
        v.push(s);
    } } }
    // every well-formed token of every shape with a weight text denoting more than 1 (must be rejected or clamped, C10)
    for (t, _) in all_token_shapes().iter() {
        for w in [":1.5", ":1.05", ":1.0000002", ":1.999"] { v.push(format!("{}{}", t, w)); }
    }
    // token-shaped strings with arbitrary (also reversed / degenerate) ranks and odd weights
    let ws = ["", ":1", ":0", ":0.5", ":1.5", ":1.0000001", ":2", ":.5", ":1.", ":0.999999999999", ":-1", ":1e3", ":inf", ":nan"];
    for _ in 0..n {
        let r = |rng: &mut Rng| RANK_CH[rng.below(13) as usize];
        let s = |rng: &mut Rng| SUIT_CH[rng.below(4) as usize];
        let so = |rng: &mut Rng| if rng.below(2) == 0 { 's' } else { 'o' };
        let (a, b, c, d) = (r(rng), r(rng), r(rng), r(rng));
        let base = match rng.below(12) {
            9 => format!("{}{}", a, a), 10 => format!("{}{}+", a, a), 11 => format!("{}{}-{}{}", a, a, c, c),
            0 => format!("{}{}", a, b), 1 => format!("{}{}+", a, b), 2 => format!("{}{}-{}{}", a, b, c, d),
            3 => format!("{}{}{}", a, b, so(rng)), 4 => format!("{}{}{}+", a, b, so(rng)),
            5 => { let x = so(rng); format!("{}{}{}-{}{}{}", a, b, x, c, d, so(rng)) }
            6 => format!("{}{}{}{}", a, s(rng), b, s(rng)), 7 => format!("{}{}{}{}", a, s(rng), a, s(rng)),
            _ => format!("{}é{}{}", a, b, s(rng)),
        };
        v.push(format!("{}{}", base, ws[rng.below(ws.len() as u64) as usize]));
    }
    v
}

/// C09: parse as everything, then use every value obtained; C10: every combo has two cards and a weight in [0,1]
pub fn parse_search(seed: u64, n: u64, mode: &str) -> i32 {
    std::panic::set_hook(Box::new(|_| {}));
    let mut rng = Rng(seed ^ 0xC09);
    let strings = gen_strings(&mut rng, n);
    let flop = [card(0), card(5), card(10)];
    let mut tried = 0u64;
    for s in strings.iter() {
        tried += 1;
        let s2 = s.clone();
        let r = std::panic::catch_unwind(move || -> Result<(), String> {
            let _ = s2.parse::<Rank>(); let _ = s2.parse::<Suit>();
            if let Ok(c) = s2.parse::<Card>() { let _ = c.to_string(); let _ = u64::from(c); }
            if let Ok(p) = s2.parse::<CardPair>() { let _ = p.to_string(); let _ = (p[0], p[1]); }
            let check = |p: &CardPair, w: f32, what: &str| -> Result<(), String> {
                if p[0] == p[1] { return Err(format!("{} holds the combo {} made of one card twice", what, p)); }
                if !(w >= 0.0 && w <= 1.0) { return Err(format!("{} carries weight {}", what, w)); }
                Ok(())
            };
            if let Ok(t) = s2.parse::<HandRangeToken>() {
                let _ = t.to_string();
                for (p, w) in t { check(&p, w, "token")?; }
            }
            if let Ok(range) = s2.parse::<HandRange>() {
                let _ = range.to_string();
                let _ = range.rank_pairs(); let _ = range.orphan_card_pairs();
                for (p, w) in range.card_pairs().iter() { check(p, *w, "range")?; }
                if !range.card_pairs().is_empty() && range.card_pairs().len() <= 30 {
                    let board = [Some(flop[0]), Some(flop[1]), Some(flop[2]), None, None];
                    let mut ev = FlopExhaustiveEvaluator::new(&board, &vec![range.clone(), range.clone()]);
                    ev.scope(0, 1, 0, 3);
                    for sd in ev {
                        if !(sd.probability() >= 0.0 && sd.probability() <= 1.0) { return Err(format!("showdown probability {}", sd.probability())); }
                        let mut cs: Vec<Card> = sd.board().to_vec();
                        for p in sd.players() { cs.push(p.hole_cards()[0]); cs.push(p.hole_cards()[1]); }
                        let l = cs.len(); cs.sort(); cs.dedup();
                        if cs.len() != l { return Err("a showdown holds the same card twice".to_string()); }
                    }
                }
            }
            Ok(())
        });
        let res = match r { Ok(Ok(())) => None, Ok(Err(e)) => if mode == "c10" { Some(e) } else { None }, Err(_) => if mode == "c09" { Some("panicked".to_string()) } else { None } };
        if let Some(e) = res { println!("WITNESS parse {} {} :: {:?} {}", mode, s.replace(' ', "_"), s, e); println!("SEARCH tried={} found=1", tried); return 1; }
    }
    println!("SEARCH tried={} found=0", tried);
    0
}

// ---------------------------------------------------------------------------------------------
// C17 oracle: the text of a range depends only on its contents
pub fn check_c17(entries: &Vec<(CardPair, f32)>, seed: u64) -> Result<String, String> {
    let mut rng = Rng(seed);
    let a: HandRange = entries.iter().cloned().collect();
    let mut rev = entries.clone(); rev.reverse();
    let b: HandRange = rev.iter().cloned().collect();
    // insertion with overwrites: every combo first with a wrong weight, in shuffled order, then the right one
    let mut sh = entries.clone();
    for i in 0..sh.len() { let j = i + rng.below((sh.len() - i) as u64) as usize; sh.swap(i, j); }
    let mut twice: Vec<(CardPair, f32)> = sh.iter().map(|(p, _)| (*p, 0.125)).collect();
    twice.extend(sh.iter().cloned());
    let c: HandRange = twice.iter().cloned().collect();
    let (ta, tb, tc) = match std::panic::catch_unwind(|| (a.to_string(), b.to_string(), c.to_string())) { Ok(x) => x, Err(_) => return Err("to_string panicked".to_string()) };
    if ta != tb { return Err(format!("insertion order changes the text: {:?} vs {:?}", ta, tb)); }
    if ta != tc { return Err(format!("overwrites change the text: {:?} vs {:?}", ta, tc)); }
    // the text parses back to the same contents (so the section order / merging did not lose anything)
    if let Ok(back) = ta.parse::<HandRange>() {
        if back != a { return Err(format!("text {:?} parses to a different range", ta)); }
        if back.to_string() != ta { return Err(format!("parse-then-format changes the text {:?}", ta)); }
    }
    check_c17_runs(entries, &ta)?;
    Ok(ta)
}

/// first-principles reading of one printed rank-pair token: (row kind 0 pockets / 1 suited / 2 offsuit, high card index,
/// first and last rank index it spans); None for a single-combo token such as "AsKh"
fn read_rp_token(body: &str) -> Result<Option<(usize, usize, usize, usize)>, String> {
    let ch: Vec<char> = body.chars().collect();
    let ri = |c: char| RANK_CH.iter().position(|x| *x == c);
    let bad = || Err(format!("token {:?} is not in range notation", body));
    let is_suit = |c: char| SUIT_CH.contains(&c);
    if ch.len() == 4 && ri(ch[0]).is_some() && is_suit(ch[1]) && ri(ch[2]).is_some() && is_suit(ch[3]) { return Ok(None); }
    let so = |c: char| if c == 's' { Some(1) } else if c == 'o' { Some(2) } else { None };
    match ch.len() {
        2 | 3 if ch.len() == 2 || ch[2] == '+' => match (ri(ch[0]), ri(ch[1])) {
            (Some(a), Some(b)) if a == b => Ok(Some((0, 0, if ch.len() == 3 { 0 } else { a }, a))),
            _ => bad(),
        },
        3 | 4 if ch.len() == 3 || ch[3] == '+' => match (ri(ch[0]), ri(ch[1]), so(ch[2])) {
            (Some(a), Some(b), Some(k)) if a < b => Ok(Some((k, a, if ch.len() == 4 { a + 1 } else { b }, b))),
            _ => bad(),
        },
        5 if ch[2] == '-' => match (ri(ch[0]), ri(ch[1]), ri(ch[3]), ri(ch[4])) {
            (Some(a), Some(b), Some(c), Some(d)) if a == b && c == d && a < c => Ok(Some((0, 0, a, c))),
            _ => bad(),
        },
        7 if ch[3] == '-' => match (ri(ch[0]), ri(ch[1]), so(ch[2]), ri(ch[4]), ri(ch[5]), so(ch[6])) {
            (Some(a), Some(b), Some(k), Some(c), Some(d), Some(k2)) if a == c && k == k2 && a < b && b < d => Ok(Some((k, a, b, d))),
            _ => bad(),
        },
        _ => bad(),
    }
}

/// C17, second sentence, from first principles: the printed rank-pair tokens are exactly the maximal runs of adjacent
/// complete rank pairs of one kind with equal weight, in the stated order, followed by the single combos
fn check_c17_runs(entries: &Vec<(CardPair, f32)>, text: &str) -> Result<(), String> {
    let weight_of = |p: &CardPair| entries.iter().rev().find(|e| e.0 == *p).map(|e| e.1);
    let rp_of = |kind: usize, high: usize, idx: usize| match kind { 0 => RankPair::Pocket(RANKS[idx]), 1 => RankPair::Suited(RANKS[high], RANKS[idx]), _ => RankPair::Ofsuit(RANKS[high], RANKS[idx]) };
    let complete = |kind: usize, high: usize, idx: usize| -> Option<f32> {
        let cs = combos_fp(rp_of(kind, high, idx));
        let first = weight_of(&cs[0])?;
        for c in cs.iter() { if weight_of(c)? != first { return None; } }
        Some(first)
    };
    if text.is_empty() { return if entries.is_empty() { Ok(()) } else { Err("non-empty range prints as the empty text".to_string()) }; }
    let mut last_key: Option<(usize, usize, usize, usize)> = None;
    let mut covered = std::collections::HashSet::new();
    for tok in text.split(',') {
        let tok = tok.trim();   // blanks are not part of the notation (the parser ignores them)
        let (body, w) = match tok.find(':') { Some(i) => (&tok[..i], tok[i + 1..].parse::<f32>().map_err(|_| format!("weight of {:?} unreadable", tok))?), None => (tok, 1.0f32) };
        let key = match read_rp_token(body)? {
            None => (2, 0, 0, 0),
            Some((kind, high, lo, hi)) => {
                for idx in lo..=hi {
                    match complete(kind, high, idx) {
                        Some(x) if x == w => {}
                        other => return Err(format!("token {:?} spans {} which is {:?} in the range (run written too long)", tok, rp_of(kind, high, idx), other)),
                    }
                    if !covered.insert((kind, high, idx)) { return Err(format!("{} is written twice", rp_of(kind, high, idx))); }
                }
                let row_start = if kind == 0 { 0 } else { high + 1 };
                if lo > row_start && complete(kind, high, lo - 1) == Some(w) { return Err(format!("token {:?} could be merged with the rank pair above it", tok)); }
                if hi < 12 && complete(kind, high, hi + 1) == Some(w) { return Err(format!("token {:?} could be merged with the rank pair below it", tok)); }
                if kind == 0 { (0, 0, 0, lo) } else { (1, high, kind, lo) }
            }
        };
        if let Some(lk) = last_key { if (key.0 != 2 && key <= lk) || key.0 < lk.0 { return Err(format!("token {:?} is out of order in {:?}", tok, text)); } }
        last_key = Some(key);
    }
    for kind in 0..3 { for high in 0..13 { for idx in 0..13 {
        if (kind == 0 && high != 0) || (kind != 0 && idx <= high) { continue; }
        if complete(kind, high, idx).is_some() && !covered.contains(&(kind, high, idx)) { return Err(format!("complete rank pair {} is not written as a rank-pair token in {:?}", rp_of(kind, high, idx), text)); }
    } } }
    Ok(())
}

pub fn c17_search(seed: u64, n: u64) -> i32 {
    std::panic::set_hook(Box::new(|_| {}));
    let mut rng = Rng(seed ^ 0xC17);
    let rps = all_rank_pairs();
    for it in 0..n {
        let mut entries: Vec<(CardPair, f32)> = vec![];
        // runs of adjacent rank pairs with equal / different weights, partial rank pairs, leftovers
        let k = 1 + rng.below(6);
        for _ in 0..k {
            let start = rng.below(rps.len() as u64) as usize;
            let len = 1 + rng.below(4) as usize;
            let w = [1.0f32, 0.5, 0.25, 0.0, f32::from_bits(0.5f32.to_bits() + 1)][rng.below(5) as usize];
            for rp in rps.iter().skip(start).take(len) {
                let partial = rng.below(5) == 0;
                for c in combos_fp(*rp) {
                    if partial && rng.below(3) == 0 { continue; }
                    if let Some(e) = entries.iter_mut().find(|e| e.0 == c) { e.1 = w; } else { entries.push((c, w)); }
                }
            }
        }
        if let Err(e) = check_c17(&entries, seed + it) {
            let d: Vec<String> = entries.iter().map(|(p, w)| format!("{}:{}", p, w)).collect();
            println!("WITNESS c17 {} {} :: {}", seed + it, d.join(","), e);
            println!("SEARCH tried={} found=1", it + 1);
            return 1;
        }
    }
    println!("SEARCH tried={} found=0", n);
    0
}

// ---------------------------------------------------------------------------------------------
// C06 oracle: the text of a range parses back to the same range (same combos, bit-identical weights);
// the text of a token parses back to an equal token
pub fn check_c06(entries: &Vec<(CardPair, f32)>) -> Result<String, String> {
    let a: HandRange = entries.iter().cloned().collect();
    let text = match std::panic::catch_unwind(|| a.to_string()) { Ok(x) => x, Err(_) => return Err("to_string panicked".to_string()) };
    let back = match std::panic::catch_unwind(|| text.parse::<HandRange>()) { Ok(Ok(x)) => x, Ok(Err(_)) => return Err(format!("text {:?} is rejected", text)), Err(_) => return Err(format!("parsing {:?} panicked", text)) };
    let (ma, mb) = (a.card_pairs(), back.card_pairs());
    for (p, w) in ma.iter() {
        match mb.get(p) {
            None => return Err(format!("text {:?} loses {}", text, p)),
            Some(x) => if x.to_bits() != w.to_bits() { return Err(format!("text {:?} gives {} the weight {:?} instead of {:?}", text, p, x, w)); }
        }
    }
    for (p, _) in mb.iter() { if !ma.contains_key(p) { return Err(format!("text {:?} adds {}", text, p)); } }
    Ok(text)
}

pub fn c06_search(seed: u64, n: u64) -> i32 {
    std::panic::set_hook(Box::new(|_| {}));
    // tokens: every well-formed token shape x a few weights: text -> token -> text -> token
    let mut tried = 0u64;
    for (text, _) in all_token_shapes().iter() {
        for wt in ["", ":0.5", ":0", ":0.25"].iter() {
            tried += 1;
            let t = format!("{}{}", text, wt);
            let r = std::panic::catch_unwind(|| -> Result<(), String> {
                let tok = t.parse::<HandRangeToken>().map_err(|_| "rejected as a token".to_string())?;
                let again = tok.to_string().parse::<HandRangeToken>().map_err(|_| format!("its own text {:?} is rejected", tok.to_string()))?;
                if again == tok { Ok(()) } else { Err(format!("its own text {:?} parses to a different token", tok.to_string())) }
            });
            let r = match r { Ok(x) => x, Err(_) => Err("panicked".to_string()) };
            if let Err(e) = r { println!("WITNESS c06tok {} :: token {:?} {}", t, t, e); println!("SEARCH tried={} found=1", tried); return 1; }
        }
    }
    let mut rng = Rng(seed ^ 0xC06);
    let rps = all_rank_pairs();
    let ws = [1.0f32, 0.5, 0.25, 0.0, f32::from_bits(0.5f32.to_bits() + 1), f32::from_bits(1.0f32.to_bits() - 1), 1e-10, 0.1, f32::from_bits(1)];
    for _ in 0..n {
        tried += 1;
        let mut entries: Vec<(CardPair, f32)> = vec![];
        let k = 1 + rng.below(6);
        for _ in 0..k {
            let start = rng.below(rps.len() as u64) as usize;
            let len = 1 + rng.below(5) as usize;
            // a weight from the pool, or any f32 in [0, 1) (8-9 significant digits when printed)
            let w = if rng.below(3) == 0 { (rng.below(1 << 24) as f32) / ((1u32 << 24) as f32) } else { ws[rng.below(ws.len() as u64) as usize] };
            for rp in rps.iter().skip(start).take(len) {
                let partial = rng.below(5) == 0;
                for c in combos_fp(*rp) {
                    if partial && rng.below(3) == 0 { continue; }
                    if let Some(e) = entries.iter_mut().find(|e| e.0 == c) { e.1 = w; } else { entries.push((c, w)); }
                }
            }
        }
        if let Err(e) = check_c06(&entries) {
            let d: Vec<String> = entries.iter().map(|(p, w)| format!("{}:{:?}", p, w)).collect();
            println!("WITNESS c06 {} :: {}", d.join(","), e);
            println!("SEARCH tried={} found=1", tried);
            return 1;
        }
    }
    println!("SEARCH tried={} found=0", tried);
    0
}

// ---------------------------------------------------------------------------------------------
// C01 / C07 oracle from first principles: class of the best of the 21 five-card sub-hands, numbered 1..7462
fn binom(n: usize, k: usize) -> usize { if k > n { 0 } else { let mut r = 1usize; for i in 0..k { r = r * (n - i) / (i + 1); } r } }

/// rank of the ascending tuple t among the k-subsets of 0..n in lexicographic order
fn lexrank(t: &[usize], n: usize) -> usize {
    let k = t.len();
    let mut r = 0; let mut prev: isize = -1;
    for (i, &x) in t.iter().enumerate() {
        for y in ((prev + 1) as usize)..x { r += binom(n - y - 1, k - i - 1); }
        prev = x as isize;
    }
    r
}

fn straight_top(t: &[usize]) -> Option<usize> {
    // t ascending rank codes (0 = ace): five consecutive codes, or the wheel A-5-4-3-2 = (0, 9, 10, 11, 12)
    if t.len() == 5 && t[4] - t[0] == 4 && t.windows(2).all(|w| w[1] == w[0] + 1) { return Some(t[0]); }
    if t == [0, 9, 10, 11, 12] { return Some(9); }
    None
}

fn hc_idx(t: &[usize]) -> usize {
    // index among the 1277 non-straight rank sets: lexrank minus the straights that order before t
    let mut straights: Vec<Vec<usize>> = (0..9).map(|s| (s..s + 5).collect()).collect();
    straights.push(vec![0, 9, 10, 11, 12]);
    lexrank(t, 13) - straights.iter().filter(|s| s.as_slice() < t).count()
}

fn reindex(x: usize, removed: &[usize]) -> usize { x - removed.iter().filter(|r| **r < x).count() }

pub fn class5_fp(cards: &[Card]) -> u16 {
    let code = |c: &Card| RANKS.iter().position(|r| r == c.rank()).unwrap();
    let flush = cards.iter().all(|c| c.suit() == cards[0].suit());
    let mut q = [0usize; 13];
    for c in cards { q[code(c)] += 1; }
    let of = |m: usize| -> Vec<usize> { (0..13).filter(|r| q[*r] == m).collect() };
    let (four, three, two, one) = (of(4), of(3), of(2), of(1));
    let v = if four.len() == 1 {
        11 + 12 * four[0] + reindex(one[0], &four)
    } else if three.len() == 1 && two.len() == 1 {
        167 + 12 * three[0] + reindex(two[0], &three)
    } else if three.len() == 1 {
        let ks: Vec<usize> = one.iter().map(|k| reindex(*k, &three)).collect();
        1610 + 66 * three[0] + lexrank(&ks, 12)
    } else if two.len() == 2 {
        2468 + 11 * lexrank(&two, 13) + reindex(one[0], &two)
    } else if two.len() == 1 {
        let ks: Vec<usize> = one.iter().map(|k| reindex(*k, &two)).collect();
        3326 + 220 * two[0] + lexrank(&ks, 12)
    } else {
        match (straight_top(&one), flush) {
            (Some(t), true) => 1 + t,
            (Some(t), false) => 1600 + t,
            (None, true) => 323 + hc_idx(&one),
            (None, false) => 6186 + hc_idx(&one),
        }
    };
    v as u16
}

pub fn category_fp(class: u16) -> &'static str {
    match class { 1..=10 => "StraightFlush", 11..=166 => "Quads", 167..=322 => "FullHouse", 323..=1599 => "Flush", 1600..=1609 => "Straight",
                  1610..=2467 => "Trips", 2468..=3325 => "TwoPair", 3326..=6185 => "Pair", _ => "HighCard" }
}

pub fn class7_fp(cards: &[Card; 7]) -> u16 {
    let mut best = u16::MAX;
    for i in 0..7 { for j in (i + 1)..7 {
        let five: Vec<Card> = (0..7).filter(|k| *k != i && *k != j).map(|k| cards[k]).collect();
        best = best.min(class5_fp(&five));
    } }
    best
}

pub fn check_eval(cards: &[Card; 7], mode: &str) -> Result<String, String> {
    let want = class7_fp(cards);
    let c = *cards;
    let got = match std::panic::catch_unwind(move || { let h = MadeHand::from(c); (h.power_index(), format!("{:?}", h.hand_type())) }) { Ok(x) => x, Err(_) => return Err(format!("{:?} panicked", cards)) };
    if mode != "c07" && got.0 != want { return Err(format!("{:?} evaluates to {} instead of {}", cards, got.0, want)); }
    if mode != "c01" && got.1 != category_fp(want) { return Err(format!("{:?} (index {}) reports {} instead of {}", cards, want, got.1, category_fp(want))); }
    Ok(format!("{:?} -> {} {}", cards, got.0, got.1))
}

/// structured hands first (every rank pattern x suited / unsuited shapes), then random seven-card sets in random order
pub fn eval_search(seed: u64, n: u64, mode: &str) -> i32 {
    std::panic::set_hook(Box::new(|_| {}));
    let mut rng = Rng(seed ^ 0xE7A1);
    let mut tried = 0u64;
    let mut probe = |cards: [Card; 7], tried: &mut u64| -> bool {
        *tried += 1;
        if let Err(e) = check_eval(&cards, mode) {
            let d: Vec<String> = cards.iter().map(|c| c.to_string()).collect();
            println!("WITNESS eval-check {} {} :: {}", mode, d.join(" "), e);
            println!("SEARCH tried={} found=1", *tried);
            return true;
        }
        false
    };
    // all rank multisets of size 7 (49,205 of them), each in three suitings: as flush-free as possible, a five-card flush on
    // the top / bottom five distinct ranks where the multiset allows it, and seven suited cards when all ranks differ
    let mut q = [0usize; 13];
    fn rec(pos: usize, left: usize, q: &mut [usize; 13], out: &mut Vec<[usize; 13]>) {
        if pos == 13 { if left == 0 { out.push(*q); } return; }
        for m in 0..=left.min(4) { q[pos] = m; rec(pos + 1, left - m, q, out); }
        q[pos] = 0;
    }
    let mut all = vec![];
    rec(0, 7, &mut q, &mut all);
    for q in all.iter() {
        let ranks: Vec<usize> = (0..13).flat_map(|r| std::iter::repeat(r).take(q[r])).collect();
        let distinct: Vec<usize> = (0..13).filter(|r| q[*r] > 0).collect();
        // suiting A: copy number of the rank gives the suit, rotated by the rank (few accidental flushes)
        let mut seen = [0usize; 13];
        let mut a = vec![];
        for r in ranks.iter() { a.push(Card::new(RANKS[*r], SUITS[(seen[*r] + *r) % 4])); seen[*r] += 1; }
        let mut arr: [Card; 7] = [a[0], a[1], a[2], a[3], a[4], a[5], a[6]];
        for i in 0..6 { let j = i + rng.below((7 - i) as u64) as usize; arr.swap(i, j); }
        if probe(arr, &mut tried) { return 1; }
        // suitings B / C: the first copy of the top (bottom) five distinct ranks in spades, everything else off-suit
        if distinct.len() >= 5 {
            for pick in [0usize, distinct.len() - 5, distinct.len().saturating_sub(6).min(1)] {
                let flush_ranks: Vec<usize> = distinct[pick..(pick + 5).min(distinct.len())].to_vec();
                let mut seen = [0usize; 13];
                let mut b = vec![];
                for r in ranks.iter() {
                    let s = if seen[*r] == 0 && flush_ranks.contains(r) { 0 } else { 1 + (seen[*r] + *r) % 3 };
                    b.push(Card::new(RANKS[*r], SUITS[s])); seen[*r] += 1;
                }
                // distinctness: a rank with 4 copies would need 3 off-suit copies in 3 suits: fine; with the spade copy first
                let mut ok = true;
                for i in 0..7 { for j in (i + 1)..7 { if b[i] == b[j] { ok = false; } } }
                if !ok { continue; }
                let mut arr: [Card; 7] = [b[0], b[1], b[2], b[3], b[4], b[5], b[6]];
                for i in 0..6 { let j = i + rng.below((7 - i) as u64) as usize; arr.swap(i, j); }
                if probe(arr, &mut tried) { return 1; }
            }
        }
        if distinct.len() >= 6 {
            // six or seven cards of one suit
            let mut seen = [0usize; 13];
            let mut c = vec![];
            for r in ranks.iter() { let s = if seen[*r] == 0 { 2 } else { (seen[*r] + 2) % 4 }; c.push(Card::new(RANKS[*r], SUITS[s])); seen[*r] += 1; }
            let arr: [Card; 7] = [c[0], c[1], c[2], c[3], c[4], c[5], c[6]];
            if probe(arr, &mut tried) { return 1; }
        }
    }
    for _ in 0..n {
        let mut deck: Vec<usize> = (0..52).collect();
        for i in 0..7 { let j = i + rng.below((52 - i) as u64) as usize; deck.swap(i, j); }
        let arr: [Card; 7] = [card(deck[0]), card(deck[1]), card(deck[2]), card(deck[3]), card(deck[4]), card(deck[5]), card(deck[6])];
        if probe(arr, &mut tried) { return 1; }
    }
    println!("SEARCH tried={} found=0", tried);
    0
}

// ---------------------------------------------------------------------------------------------
// C16, last clause: the per-scope results of calculate_scopes(k) add up to the single-threaded result
pub fn check_c16sum(k: u32, flop: &[Card; 3], ranges: &Vec<HandRange>) -> Result<String, String> {
    let full = run_scope(flop, ranges, None)?.len();
    let scopes = match std::panic::catch_unwind(|| crate::scope::calculate_scopes(k)) { Ok(s) => s, Err(_) => return Err(format!("calculate_scopes({}) panicked", k)) };
    let mut sum = 0usize;
    for s in scopes.iter() {
        let (f, t) = ((s.turn_from, s.river_from), (s.turn_to, s.river_to));
        sum += run_scope(flop, ranges, Some((f.0, f.1, t.0, t.1))).map_err(|e| format!("scope {:?}->{:?} of calculate_scopes({}): {}", f, t, k, e))?.len();
    }
    if sum != full { return Err(format!("the {} scopes of calculate_scopes({}) yield {} showdowns in total, the unscoped run {}", scopes.len(), k, sum, full)); }
    Ok(format!("{} scopes, {} showdowns", scopes.len(), full))
}

pub fn c16sum_search(seed: u64, n: u64) -> i32 {
    std::panic::set_hook(Box::new(|_| {}));
    let mut rng = Rng(seed ^ 0xC16);
    let mut tried = 0u64;
    for it in 0..3 {
        let mut case = gen_iter_case(&mut rng, 1 + it * 7);
        if case.ranges.iter().any(|r| r.len() > 3) || case.ranges.len() > 2 { case.ranges = vec![vec![(CardPair::new(card(0), card(5)), 1.0)], vec![(CardPair::new(card(9), card(14)), 0.5), (CardPair::new(card(20), card(30)), 1.0)]]; case.flop = [card(51), card(50), card(49)]; }
        let ranges: Vec<HandRange> = case.ranges.iter().map(|r| r.iter().cloned().collect()).collect();
        for k in 1..=(n.min(200) as u32) {
            tried += 1;
            if let Err(e) = check_c16sum(k, &case.flop, &ranges) {
                let d = case.describe();
                println!("WITNESS c16sum {} {} :: {}", k, d.trim_start_matches("iter "), e);
                println!("SEARCH tried={} found=1", tried);
                return 1;
            }
        }
    }
    println!("SEARCH tried={} found=0", tried);
    0
}

// ---------------------------------------------------------------------------------------------
// C08 with many wide ranges: the number of deals per board exceeds 2^32 (or 2^64); the run cannot be drained, but
// building the iterator and taking the first showdowns must return normally (debug build: overflow checks on)
pub fn check_c08big(players: usize, combos: usize) -> Result<String, String> {
    let flop = [card(51), card(50), card(49)];
    let mut all: Vec<CardPair> = vec![];
    for a in 0..49 { for b in (a + 1)..49 { all.push(CardPair::new(card(a), card(b))); } }
    // combos over the 47 cards that are neither on the flop nor the first turn / river, a different slice per player
    let inner: Vec<CardPair> = all.iter().filter(|c| c[0] != card(0) && c[0] != card(1) && c[1] != card(0) && c[1] != card(1)).cloned().collect();
    let ranges: Vec<HandRange> = (0..players).map(|i| (0..combos.min(inner.len())).map(|k| (inner[(k * 7 + i * 131) % inner.len()], 1.0f32)).collect()).collect();
    let board = [Some(flop[0]), Some(flop[1]), Some(flop[2]), None, None];
    let (tx, rx) = std::sync::mpsc::channel();
    let h = std::thread::Builder::new().stack_size(2 * 1024 * 1024).spawn(move || {
        let mut e = FlopExhaustiveEvaluator::new(&board, &ranges);
        e.scope(0, 1, 0, 2);
        let n = e.into_iter().take(3).count();
        let _ = tx.send(n);
    }).unwrap();
    // the map order of the ranges decides how long the first legal deal takes to reach (blocked deals are stepped through
    // one by one): a timeout is inconclusive, only a panic is a failure
    match rx.recv_timeout(std::time::Duration::from_secs(4)) {
        Ok(n) => { let _ = h.join(); Ok(format!("{} players x {} combos: first {} showdowns returned", players, combos, n)) }
        Err(std::sync::mpsc::RecvTimeoutError::Timeout) => Ok(format!("{} players x {} combos: inconclusive (still stepping through blocked deals after 4 s, no panic)", players, combos)),
        Err(_) => Err(format!("{} players x {} combos: panic while building the iterator or taking the first showdowns", players, combos)),
    }
}

/// C08 at a full table: `players` one-combo ranges (player i holds cards 2i and 2i+1, optionally seated in reverse),
/// drained to the end on a 2 MiB stack: every seat wins on some board, so per-seat bookkeeping narrower than the
/// table (a u8 / u16 / u32 mask, a fixed array) is exercised
pub fn check_c08table(players: usize, reverse: bool) -> Result<String, String> {
    let flop = [card(51), card(50), card(49)];
    let mut ranges: Vec<HandRange> = (0..players).map(|i| std::iter::once((CardPair::new(card(2 * i), card(2 * i + 1)), 1.0f32)).collect()).collect();
    if reverse { ranges.reverse(); }
    let board = [Some(flop[0]), Some(flop[1]), Some(flop[2]), None, None];
    let h = std::thread::Builder::new().stack_size(2 * 1024 * 1024).spawn(move || {
        let e = FlopExhaustiveEvaluator::new(&board, &ranges);
        let mut wins = vec![0usize; players];
        let mut n = 0usize;
        for sd in e.into_iter() { n += 1; for (i, p) in sd.players().iter().enumerate() { if p.is_winner() { wins[i] += 1; } } }
        (n, wins)
    }).unwrap();
    match h.join() {
        Ok((n, wins)) => {
            let free = 49 - 2 * players;
            if n != free * (free - 1) / 2 { return Err(format!("{} one-combo players{}: {} showdowns, expected {}", players, if reverse { " (reversed)" } else { "" }, n, free * (free - 1) / 2)); }
            Ok(format!("{} players: {} showdowns, wins per seat {:?}", players, n, wins))
        }
        Err(_) => Err(format!("{} one-combo players{}: panic while enumerating", players, if reverse { " (reversed)" } else { "" })),
    }
}

pub fn c08big_search() -> i32 {
    std::panic::set_hook(Box::new(|_| {}));
    for (i, p) in [9usize, 10, 16, 17, 23].iter().enumerate() {
        for rev in [false, true] {
            if let Err(e) = check_c08table(*p, rev) {
                println!("WITNESS c08table {} {} :: {}", p, if rev { 1 } else { 0 }, e);
                println!("SEARCH tried={} found=1", 2 * i + 1);
                return 1;
            }
        }
    }
    let cases = [(4usize, 256usize), (5, 100), (4, 1081), (8, 256), (7, 1000), (9, 255)];
    for (i, (p, c)) in cases.iter().enumerate() {
        if let Err(e) = check_c08big(*p, *c) {
            println!("WITNESS c08big {} {} :: {}", p, c, e);
            println!("SEARCH tried={} found=1", i + 1);
            return 1;
        }
    }
    println!("SEARCH tried={} found=0", cases.len());
    0
}

