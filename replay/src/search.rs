//! Failing-input search helpers (NOT the deciding step): small native oracles written directly from
//! the property statements, used only to turn a failed proof obligation into a concrete input.
use espada::card::{Card, Rank, Suit};
use espada::evaluator::{MadeHand, Showdown};
use espada::hand_range::CardPair;

pub struct Rng(pub u64);
impl Rng {
    pub fn next(&mut self) -> u64 {
        // splitmix64
        self.0 = self.0.wrapping_add(0x9E3779B97F4A7C15);
        let mut z = self.0;
        z = (z ^ (z >> 30)).wrapping_mul(0xBF58476D1CE4E5B9);
        z = (z ^ (z >> 27)).wrapping_mul(0x94D049BB133111EB);
        z ^ (z >> 31)
    }
    pub fn below(&mut self, n: u64) -> u64 { self.next() % n }
}

pub const RANKS: [Rank; 13] = [Rank::Ace, Rank::King, Rank::Queen, Rank::Jack, Rank::Ten, Rank::Nine, Rank::Eight,
    Rank::Seven, Rank::Six, Rank::Five, Rank::Four, Rank::Trey, Rank::Deuce];
pub const SUITS: [Suit; 4] = [Suit::Spade, Suit::Heart, Suit::Diamond, Suit::Club];

pub fn card(code: usize) -> Card { Card::new(RANKS[code / 4], SUITS[code % 4]) }

/// C03 oracle, relative to the real evaluator: Ok(description) or Err(what differs)
pub fn check_showdown(players: &Vec<CardPair>, board: [Card; 5]) -> Result<String, String> {
    let desc = format!("board={:?} players={:?}", board, players);
    let collide = players.iter().any(|p| board.contains(&p[0]) || board.contains(&p[1]));
    let sd = std::panic::catch_unwind(|| Showdown::new(players.clone(), board, 0.5));
    let sd = match sd { Ok(x) => x, Err(_) => return Err(format!("{} panicked", desc)) };
    match sd {
        None => if collide { Ok(format!("{} -> None (collision)", desc)) } else { Err(format!("{} -> None but no hole card is on the board", desc)) },
        Some(sd) => {
            if collide { return Err(format!("{} -> Some although a hole card is on the board", desc)); }
            if sd.players().len() != players.len() { return Err(format!("{} -> {} players", desc, sd.players().len())); }
            if sd.board() != &board { return Err(format!("{} -> board changed", desc)); }
            if sd.probability() != 0.5 { return Err(format!("{} -> probability {}", desc, sd.probability())); }
            let idx: Vec<u16> = players.iter().map(|p| MadeHand::from([p[0], p[1], board[0], board[1], board[2], board[3], board[4]]).power_index()).collect();
            let best = *idx.iter().min().unwrap_or(&0);
            let mut wins = 0;
            for (i, sp) in sd.players().iter().enumerate() {
                if sp.hole_cards() != players[i] { return Err(format!("{} -> player {} hole cards {:?}", desc, i, sp.hole_cards())); }
                if sp.board() != board { return Err(format!("{} -> player {} board", desc, i)); }
                if sp.hand().power_index() != idx[i] { return Err(format!("{} -> player {} hand {} want {}", desc, i, sp.hand().power_index(), idx[i])); }
                let want = idx[i] == best;
                if sp.is_winner() != want { return Err(format!("{} -> player {} winner flag {} want {} (indexes {:?})", desc, i, sp.is_winner(), want, idx)); }
                if want { wins += 1; }
                let c = sp.cards();
                if c != [board[0], board[1], board[2], board[3], board[4], players[i][0], players[i][1]] { return Err(format!("{} -> player {} cards()", desc, i)); }
            }
            if sd.winner_len() as usize != wins { return Err(format!("{} -> winner_len {} want {}", desc, sd.winner_len(), wins)); }
            if !players.is_empty() && wins == 0 { return Err(format!("{} -> no winner", desc)); }
            Ok(format!("{} -> flags ok, {} winner(s)", desc, wins))
        }
    }
}

pub fn showdown_search(seed: u64, n: u64) -> i32 {
    std::panic::set_hook(Box::new(|_| {}));
    let mut rng = Rng(seed ^ 0xC03);
    let mut tried = 0u64;
    for it in 0..n {
        // deck shuffle (partial)
        let mut deck: Vec<usize> = (0..52).collect();
        for i in 0..20 { let j = i + rng.below((52 - i) as u64) as usize; deck.swap(i, j); }
        let mode = it % 5;
        let mut board = [card(deck[0]), card(deck[1]), card(deck[2]), card(deck[3]), card(deck[4])];
        if mode == 1 {
            // board plays for everyone (broadway straight, mixed suits): multi-way ties
            board = [card(0 * 4 + 0), card(1 * 4 + 1), card(2 * 4 + 2), card(3 * 4 + 3), card(4 * 4 + 0)];
        }
        let np = 1 + rng.below(6) as usize;
        let mut players = vec![];
        let mut k = 5;
        let used: Vec<Card> = board.to_vec();
        while players.len() < np && k + 1 < 20 {
            let (a, b) = (card(deck[k]), card(deck[k + 1]));
            k += 2;
            if mode != 4 && (used.contains(&a) || used.contains(&b)) { continue; }
            players.push(CardPair::new(a, b));
        }
        if mode == 2 && players.len() >= 2 {
            // two-way tie: same ranks, other suits, where available
            let p = players[0];
            let alt = |c: Card, s: usize| Card::new(*c.rank(), SUITS[s]);
            for s in 0..4 { for t in 0..4 {
                let (a, b) = (alt(p[0], s), alt(p[1], t));
                if a != b && a != p[0] && a != p[1] && b != p[0] && b != p[1] && !board.contains(&a) && !board.contains(&b) {
                    let last = players.len() - 1;
                    players[last] = CardPair::new(a, b);
                }
            } }
        }
        if mode == 3 && !players.is_empty() {
            // collision with the board at a random player / random card position
            let i = rng.below(players.len() as u64) as usize;
            let bc = board[rng.below(5) as usize];
            let p = players[i];
            players[i] = if rng.below(2) == 0 { CardPair::new(bc, p[1]) } else { CardPair::new(p[0], bc) };
            if players[i][0] == players[i][1] { continue; }
        }
        tried += 1;
        if let Err(e) = check_showdown(&players, board) {
            let b: Vec<String> = board.iter().map(|c| c.to_string()).collect();
            let ps: Vec<String> = players.iter().map(|p| p.to_string()).collect();
            println!("WITNESS showdown {} {} :: {}", b.join(" "), ps.join(" "), e);
            println!("SEARCH tried={} found=1", tried);
            return 1;
        }
    }
    println!("SEARCH tried={} found=0", tried);
    0
}
