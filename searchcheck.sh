#!/bin/bash
# development aid: every failing-input search must find NOTHING on the unchanged tree (an oracle that is stricter than
# its property would turn a harmless refactoring into an alarm).  usage: searchcheck.sh [seeds...]
cd /verif/replay && cargo build --release --offline --quiet || exit 9
X=./target/release/espada-replay
bad=0
for s in ${@:-0 1 7}; do
  for c in "eval-search $s 100000 both" "showdown-search $s 100000" "iter-search $s 240 /tmp/sc_marker c02" "iter-search $s 240 /tmp/sc_marker c04" "iter-search $s 240 /tmp/sc_marker c08" \
           "c08big-search" "scopes-search $s 3000" "c16sum-search $s 80" "card-check c13" "card-check c14" "c12-search $s 100000" "c11-search $s 300" \
           "c05-search $s 5000" "c06-search $s 5000" "parse-search $s 20000 c09" "parse-search $s 20000 c10" "c17-search $s 3000"; do
    out=$($X $c 2>&1); rc=$?
    if [ $rc -ne 0 ] || echo "$out" | grep -q "^WITNESS"; then echo "FALSE POSITIVE? seed=$s $c rc=$rc: $(echo "$out" | grep -E '^WITNESS|panicked' | head -2 | cut -c1-300)"; bad=1; fi
  done
done
[ $bad = 0 ] && echo "all searches quiet on the unchanged tree"
