#!/bin/bash
# usage: mutest.sh <prop> <sed-expr> <file>   -- development aid: apply a one-line mutation in a scratch worktree and run a check
set -e
rm -rf /tmp/wt; git -C /repo worktree prune; git -C /repo worktree add -q /tmp/wt HEAD
cd /tmp/wt
sed -i "$2" "$3"
git diff | grep '^[+-]' | grep -v '^+++\|^---' | head -10
cd /verif
set +e
VERIF_REPO=/tmp/wt VERIF_DEV_RUN=1 timeout 3000 ./vcheck $1; echo "exit=$?"
git -C /repo worktree remove --force /tmp/wt
