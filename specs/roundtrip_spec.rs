// ===========================================================================
// Unit RT (C06 at token-list level): folding the canonical token list of a range back into a map gives
// the range.  Pure specification lemmas over the contracts of FMT (token list == canon(m)), TOKEN
// (a token expands to expand_combos) and LIST (from_str folds the tokens in order).  Hand-written.
// ===========================================================================

pub open spec fn in_token(t: HandRangeToken, cp: CardPair) -> bool { expand_combos(t).contains(cp) }

/// the first n tokens folded into the empty range (what LIST's apply_parts does with parsed pieces)
pub open spec fn apply_tokens(ts: Seq<HandRangeToken>, n: int) -> RangeMap
    decreases n
{
    if n <= 0 { Map::<CardPair, f32>::empty() } else {
        apply_token(apply_tokens(ts, n - 1), ts[n - 1], expand_combos(ts[n - 1]).len() as int)
    }
}

pub proof fn lemma_apply_token_char(m: RangeMap, t: HandRangeToken, cp: CardPair)
    ensures
        apply_token(m, t, expand_combos(t).len() as int).contains_key(cp) <==> (m.contains_key(cp) || in_token(t, cp)),
        in_token(t, cp) ==> apply_token(m, t, expand_combos(t).len() as int)[cp] == tok_p(t),
        !in_token(t, cp) && m.contains_key(cp) ==> apply_token(m, t, expand_combos(t).len() as int)[cp] == m[cp],
{
    let n = expand_combos(t).len() as int;
    if in_token(t, cp) {
        let i = choose|i: int| 0 <= i < expand_combos(t).len() && expand_combos(t)[i] == cp;
        lemma_apply_token_wins(m, t, n, i);
    } else {
        lemma_apply_token_frame(m, t, n, cp);
    }
}

pub open spec fn covers(ts: Seq<HandRangeToken>, n: int, cp: CardPair) -> bool {
    exists|j: int| 0 <= j < n && in_token(#[trigger] ts[j], cp)
}

/// if every token that lists cp carries the weight w, the fold holds cp exactly when some token lists it, with weight w
pub proof fn lemma_apply_tokens_char(ts: Seq<HandRangeToken>, n: int, cp: CardPair, w: f32)
    requires 0 <= n <= ts.len(), forall|j: int| 0 <= j < n && in_token(#[trigger] ts[j], cp) ==> tok_p(ts[j]) == w,
    ensures apply_tokens(ts, n).contains_key(cp) <==> covers(ts, n, cp),
        apply_tokens(ts, n).contains_key(cp) ==> apply_tokens(ts, n)[cp] == w,
    decreases n
{
    hide(expand_combos); hide(apply_token);
    if n > 0 {
        lemma_apply_tokens_char(ts, n - 1, cp, w);
        lemma_apply_token_char(apply_tokens(ts, n - 1), ts[n - 1], cp);
        if covers(ts, n - 1, cp) {
            let j = choose|j: int| 0 <= j < n - 1 && in_token(#[trigger] ts[j], cp);
            assert(in_token(ts[j], cp));
        }
        if covers(ts, n, cp) {
            let j = choose|j: int| 0 <= j < n && in_token(#[trigger] ts[j], cp);
            if j < n - 1 { assert(in_token(ts[j], cp)); }
        }
        if in_token(ts[n - 1], cp) { assert(covers(ts, n, cp)); }
    }
}

// ---------- what a run token lists ----------

pub proof fn lemma_concat_contains(a: Seq<CardPair>, b: Seq<CardPair>, x: CardPair)
    ensures (a + b).contains(x) <==> (a.contains(x) || b.contains(x)),
{
    if a.contains(x) { let i = choose|i: int| 0 <= i < a.len() && a[i] == x; assert((a + b)[i] == x); }
    if b.contains(x) { let i = choose|i: int| 0 <= i < b.len() && b[i] == x; assert((a + b)[a.len() + i] == x); }
    if (a + b).contains(x) {
        let i = choose|i: int| 0 <= i < (a + b).len() && (a + b)[i] == x;
        if i < a.len() { assert(a[i] == x); } else { assert(b[i - a.len()] == x); }
    }
}

pub proof fn lemma_expand_ranks_contains(kind: int, high: Rank, rs: Seq<Rank>, n: int, cp: CardPair)
    requires 0 <= n <= rs.len(),
    ensures expand_ranks(kind, high, rs, n).contains(cp) <==> exists|j: int| 0 <= j < n && combos_seq(mk_rp(kind, high, #[trigger] rs[j])).contains(cp),
    decreases n
{
    if n > 0 {
        lemma_expand_ranks_contains(kind, high, rs, n - 1, cp);
        lemma_concat_contains(expand_ranks(kind, high, rs, n - 1), combos_seq(mk_rp(kind, high, rs[n - 1])), cp);
        if exists|j: int| 0 <= j < n && combos_seq(mk_rp(kind, high, #[trigger] rs[j])).contains(cp) {
            let j = choose|j: int| 0 <= j < n && combos_seq(mk_rp(kind, high, #[trigger] rs[j])).contains(cp);
            if j < n - 1 { assert(combos_seq(mk_rp(kind, high, rs[j])).contains(cp)); }
        }
        if expand_ranks(kind, high, rs, n - 1).contains(cp) {
            let j = choose|j: int| 0 <= j < n - 1 && combos_seq(mk_rp(kind, high, #[trigger] rs[j])).contains(cp);
            assert(combos_seq(mk_rp(kind, high, rs[j])).contains(cp));
        }
    } else {
        assert(expand_ranks(kind, high, rs, n) =~= Seq::<CardPair>::empty());
    }
}

/// a span lists exactly the combos of the rank pairs with codes a..=b of its row
pub proof fn lemma_span_contains(kind: int, high: Rank, a: int, b: int, cp: CardPair)
    requires 0 <= a, b <= 12,
    ensures span(kind, high, a, b).contains(cp) <==> exists|c: int| a <= c <= b && combos_seq(#[trigger] row_rp(kind, high, c)).contains(cp),
{
    let rs = range_seq(a, b);
    lemma_expand_ranks_contains(kind, high, rs, rs.len() as int, cp);
    if span(kind, high, a, b).contains(cp) {
        let j = choose|j: int| 0 <= j < rs.len() && combos_seq(mk_rp(kind, high, #[trigger] rs[j])).contains(cp);
        assert(rs[j] == rank_of_code(a + j));
        assert(combos_seq(row_rp(kind, high, a + j)).contains(cp));
    }
    if exists|c: int| a <= c <= b && combos_seq(#[trigger] row_rp(kind, high, c)).contains(cp) {
        let c = choose|c: int| a <= c <= b && combos_seq(#[trigger] row_rp(kind, high, c)).contains(cp);
        assert(rs[c - a] == rank_of_code(c));
        assert(combos_seq(mk_rp(kind, high, rs[c - a])).contains(cp));
    }
}

/// the high card is irrelevant in the pocket row
pub proof fn lemma_span_pocket_high(h1: Rank, h2: Rank, a: int, b: int)
    ensures span(0, h1, a, b) == span(0, h2, a, b),
{
    let rs = range_seq(a, b);
    lemma_expand_pocket_high(h1, h2, rs, rs.len() as int);
}

pub proof fn lemma_expand_pocket_high(h1: Rank, h2: Rank, rs: Seq<Rank>, n: int)
    ensures expand_ranks(0, h1, rs, n) == expand_ranks(0, h2, rs, n),
    decreases n
{
    if n > 0 { lemma_expand_pocket_high(h1, h2, rs, n - 1); }
}

/// top of a row: 0 for the pockets, one below the high card otherwise
pub open spec fn row_top(kind: int, high: Rank) -> int { if kind == 0 { 0 } else { rank_code(high) + 1 } }

/// the run token for codes s..=e of a row lists exactly the combos of those rank pairs
pub proof fn lemma_run_token_lists(kind: int, high: Rank, s: int, e: int, w: f32, cp: CardPair)
    requires 0 <= kind <= 2, row_top(kind, high) <= s <= e <= 12,
    ensures in_token(run_token(kind, high, row_top(kind, high), s, e, w), cp)
        <==> exists|c: int| s <= c <= e && combos_seq(#[trigger] row_rp(kind, high, c)).contains(cp),
        tok_p(run_token(kind, high, row_top(kind, high), s, e, w)) == w,
{
    hide(combos_seq);
    let lo = row_top(kind, high);
    let t = run_token(kind, high, lo, s, e, w);
    lemma_rank_codes(high);
    lemma_rank_codes(rank_of_code(e));
    lemma_rank_codes(rank_of_code(s));
    assert(rank_code(rank_of_code(e)) == e);
    assert(rank_code(rank_of_code(s)) == s);
    if s == lo && e != lo {
        lemma_span_contains(kind, high, lo, e, cp);
        if kind == 0 { lemma_span_pocket_high(rank_of_code(e), high, 0, e); }
    } else if s == e {
        if exists|c: int| s <= c <= e && combos_seq(#[trigger] row_rp(kind, high, c)).contains(cp) {
            let c = choose|c: int| s <= c <= e && combos_seq(#[trigger] row_rp(kind, high, c)).contains(cp);
            assert(c == e);
        }
        if in_token(t, cp) { assert(combos_seq(row_rp(kind, high, e)).contains(cp)); }
    } else {
        lemma_span_contains(kind, high, s, e, cp);
        if kind == 0 { lemma_span_pocket_high(rank_of_code(s), high, s, e); }
    }
}

// ---------- the runs found by the scan of a row ----------

/// scan() with the run bounds kept: closed runs (first code, last code) and the start of the open run
pub open spec fn scan_r(rps: Map<RankPair, f32>, kind: int, high: Rank, lo: int, k: int) -> (Seq<(int, int)>, Option<int>)
    decreases k - lo
{
    if k <= lo { (Seq::empty(), None) } else {
        let prev = scan_r(rps, kind, high, lo, k - 1);
        let c = k - 1;
        let p = wt(rps, row_rp(kind, high, c));
        let closed = match prev.1 {
            Some(s) => {
                let ws = rps[row_rp(kind, high, s)];
                if p is None || !f32_eq_spec(p.unwrap(), ws) { (prev.0.push((s, c - 1)), None::<int>) } else { prev }
            }
            None => prev,
        };
        if closed.1 is None && p is Some { (closed.0, Some(c)) } else { closed }
    }
}

/// codes s..=e of the row are all reported rank pairs, each (after the first) with a weight f32-equal to the first's
pub open spec fn run_ok(rps: Map<RankPair, f32>, kind: int, high: Rank, s: int, e: int) -> bool {
    forall|c: int| s <= c <= e ==> rps.contains_key(#[trigger] row_rp(kind, high, c)) && (c > s ==> f32_eq_spec(rps[row_rp(kind, high, c)], rps[row_rp(kind, high, s)]))
}

/// scan() and scan_r() walk in step: same open run, and the j-th token is the run token of the j-th run
pub proof fn lemma_scan_sync(rps: Map<RankPair, f32>, kind: int, high: Rank, lo: int, k: int)
    requires lo <= k,
    ensures ({
        let r = scan_r(rps, kind, high, lo, k);
        let sc = scan(rps, kind, high, lo, k);
        &&& sc.1 == r.1
        &&& sc.0.len() == r.0.len()
        &&& forall|j: int| 0 <= j < r.0.len() ==> #[trigger] sc.0[j] == run_token(kind, high, lo, r.0[j].0, r.0[j].1, rps[row_rp(kind, high, r.0[j].0)])
    }),
    decreases k - lo
{
    hide(run_token);
    if k > lo {
        lemma_scan_sync(rps, kind, high, lo, k - 1);
        let prev = scan_r(rps, kind, high, lo, k - 1);
        let prevs = scan(rps, kind, high, lo, k - 1);
        let r = scan_r(rps, kind, high, lo, k);
        let sc = scan(rps, kind, high, lo, k);
        assert forall|j: int| 0 <= j < r.0.len() implies #[trigger] sc.0[j] == run_token(kind, high, lo, r.0[j].0, r.0[j].1, rps[row_rp(kind, high, r.0[j].0)]) by {
            if j < prev.0.len() { assert(sc.0[j] == prevs.0[j]); assert(r.0[j] == prev.0[j]); }
        }
    }
}

/// every run found is a run: inside the row, consecutive reported rank pairs with f32-equal weights
pub proof fn lemma_scan_runs(rps: Map<RankPair, f32>, kind: int, high: Rank, lo: int, k: int)
    requires lo <= k,
    ensures ({
        let r = scan_r(rps, kind, high, lo, k);
        &&& forall|j: int| 0 <= j < r.0.len() ==> lo <= (#[trigger] r.0[j]).0 <= r.0[j].1 < k && run_ok(rps, kind, high, r.0[j].0, r.0[j].1)
        &&& r.1 is Some ==> lo <= r.1.unwrap() < k && run_ok(rps, kind, high, r.1.unwrap(), k - 1)
    }),
    decreases k - lo
{
    if k > lo {
        lemma_scan_runs(rps, kind, high, lo, k - 1);
        let prev = scan_r(rps, kind, high, lo, k - 1);
        let r = scan_r(rps, kind, high, lo, k);
        assert forall|j: int| 0 <= j < r.0.len() implies lo <= (#[trigger] r.0[j]).0 <= r.0[j].1 < k && run_ok(rps, kind, high, r.0[j].0, r.0[j].1) by {
            if j < prev.0.len() { assert(r.0[j] == prev.0[j]); }
        }
    }
}

/// every reported rank pair of the row lies in one of the runs
pub proof fn lemma_scan_cover(rps: Map<RankPair, f32>, kind: int, high: Rank, lo: int, k: int)
    requires lo <= k,
    ensures ({
        let r = scan_r(rps, kind, high, lo, k);
        forall|c: int| lo <= c < k && rps.contains_key(#[trigger] row_rp(kind, high, c)) ==>
            (exists|j: int| 0 <= j < r.0.len() && (#[trigger] r.0[j]).0 <= c <= r.0[j].1) || (r.1 is Some && r.1.unwrap() <= c)
    }),
    decreases k - lo
{
    if k > lo {
        lemma_scan_cover(rps, kind, high, lo, k - 1);
        lemma_scan_runs(rps, kind, high, lo, k - 1);
        let prev = scan_r(rps, kind, high, lo, k - 1);
        let r = scan_r(rps, kind, high, lo, k);
        let c = k - 1;
        assert forall|d: int| lo <= d < k && rps.contains_key(#[trigger] row_rp(kind, high, d)) implies
                (exists|j: int| 0 <= j < r.0.len() && (#[trigger] r.0[j]).0 <= d <= r.0[j].1) || (r.1 is Some && r.1.unwrap() <= d) by {
            if d < c {
                if exists|j: int| 0 <= j < prev.0.len() && (#[trigger] prev.0[j]).0 <= d <= prev.0[j].1 {
                    let j = choose|j: int| 0 <= j < prev.0.len() && (#[trigger] prev.0[j]).0 <= d <= prev.0[j].1;
                    assert(r.0[j] == prev.0[j]);
                } else {
                    // d was inside the open run: either it is still open, or it has just been closed as the last run
                    assert(prev.1 is Some && prev.1.unwrap() <= d);
                    if r.1 is Some && r.1 == prev.1 {} else {
                        let j = r.0.len() - 1;
                        assert(r.0[j] == (prev.1.unwrap(), c - 1));
                    }
                }
            }
        }
    }
}

// ---------- a row's tokens against the range ----------

/// f32 `==` on the weights of the range is identity (no 0.0 / -0.0 mixture; NaN never compares equal anyway)
pub open spec fn weights_plain(m: RangeMap) -> bool {
    forall|a: CardPair, b: CardPair| m.contains_key(a) && m.contains_key(b) && f32_eq_spec(#[trigger] m[a], #[trigger] m[b]) ==> m[a] == m[b]
}

/// every combo the token lists is in the range with the token's weight
pub open spec fn tok_ok(m: RangeMap, t: HandRangeToken) -> bool {
    forall|cp: CardPair| in_token(t, cp) ==> m.contains_key(cp) && m[cp] == tok_p(t)
}

/// the runs of a row, closed and open alike
pub open spec fn row_runs(rps: Map<RankPair, f32>, kind: int, high: Rank, lo: int) -> Seq<(int, int)> {
    let r = scan_r(rps, kind, high, lo, 13);
    match r.1 { Some(s) => r.0.push((s, 12int)), None => r.0 }
}

pub proof fn lemma_row_runs(rps: Map<RankPair, f32>, kind: int, high: Rank, lo: int)
    requires lo <= 13,
    ensures ({
        let rr = row_runs(rps, kind, high, lo);
        let ts = row_tokens(rps, kind, high, lo);
        &&& ts.len() == rr.len()
        &&& forall|j: int| 0 <= j < rr.len() ==> {
            &&& lo <= (#[trigger] rr[j]).0 <= rr[j].1 <= 12
            &&& run_ok(rps, kind, high, rr[j].0, rr[j].1)
            &&& ts[j] == run_token(kind, high, lo, rr[j].0, rr[j].1, rps[row_rp(kind, high, rr[j].0)])
        }
        &&& forall|c: int| lo <= c <= 12 && rps.contains_key(#[trigger] row_rp(kind, high, c)) ==> exists|j: int| 0 <= j < rr.len() && (#[trigger] rr[j]).0 <= c <= rr[j].1
    }),
{
    hide(run_token);
    lemma_scan_sync(rps, kind, high, lo, 13);
    lemma_scan_runs(rps, kind, high, lo, 13);
    lemma_scan_cover(rps, kind, high, lo, 13);
    let r = scan_r(rps, kind, high, lo, 13);
    let sc = scan(rps, kind, high, lo, 13);
    let rr = row_runs(rps, kind, high, lo);
    let ts = row_tokens(rps, kind, high, lo);
    assert forall|j: int| 0 <= j < rr.len() implies ({
        &&& lo <= (#[trigger] rr[j]).0 <= rr[j].1 <= 12
        &&& run_ok(rps, kind, high, rr[j].0, rr[j].1)
        &&& ts[j] == run_token(kind, high, lo, rr[j].0, rr[j].1, rps[row_rp(kind, high, rr[j].0)])
    }) by {
        if j < r.0.len() { assert(rr[j] == r.0[j]); assert(ts[j] == sc.0[j]); }
    }
    assert forall|c: int| lo <= c <= 12 && rps.contains_key(#[trigger] row_rp(kind, high, c)) implies exists|j: int| 0 <= j < rr.len() && (#[trigger] rr[j]).0 <= c <= rr[j].1 by {
        if exists|j: int| 0 <= j < r.0.len() && (#[trigger] r.0[j]).0 <= c <= r.0[j].1 {
            let j = choose|j: int| 0 <= j < r.0.len() && (#[trigger] r.0[j]).0 <= c <= r.0[j].1;
            assert(rr[j] == r.0[j]);
        } else {
            let j = rr.len() - 1;
            assert(rr[j] == (r.1.unwrap(), 12int));
        }
    }
}

/// a reported rank pair's combos are in the range, all with the reported weight (under weights_plain)
pub proof fn lemma_reported_combo(m: RangeMap, rps: Map<RankPair, f32>, rp: RankPair, cp: CardPair)
    requires is_rank_pairs_of(rps, m), weights_plain(m), rps.contains_key(rp), combos_seq(rp).contains(cp),
    ensures m.contains_key(cp), m[cp] == rps[rp], m.contains_key(combos_seq(rp)[0]), rps[rp] == m[combos_seq(rp)[0]],
{
    let cs = combos_seq(rp);
    assert(valid_rp(rp) && complete(m, rp));
    let i = choose|i: int| 0 <= i < cs.len() && cs[i] == cp;
    assert(cs.len() > 0);
    assert(m.contains_key(cs[i]) && f32_eq_spec(m[cs[i]], m[cs[0]]));
    assert(m.contains_key(cs[0]));
}

/// C06 for one row, soundness: every token of the row lists only combos of the range, with their weights
pub proof fn lemma_row_sound(m: RangeMap, rps: Map<RankPair, f32>, kind: int, high: Rank, j: int)
    requires is_rank_pairs_of(rps, m), weights_plain(m), 0 <= kind <= 2, row_top(kind, high) <= 13,
        0 <= j < row_tokens(rps, kind, high, row_top(kind, high)).len(),
    ensures tok_ok(m, row_tokens(rps, kind, high, row_top(kind, high))[j]),
{
    hide(combos_seq); hide(expand_combos); hide(run_token); hide(scan_r); hide(scan);
    let lo = row_top(kind, high);
    lemma_row_runs(rps, kind, high, lo);
    let rr = row_runs(rps, kind, high, lo);
    let t = row_tokens(rps, kind, high, lo)[j];
    let (s, e) = rr[j];
    let ws = rps[row_rp(kind, high, s)];
    assert(run_ok(rps, kind, high, s, e));
    assert forall|cp: CardPair| in_token(t, cp) implies m.contains_key(cp) && m[cp] == tok_p(t) by {
        lemma_run_token_lists(kind, high, s, e, ws, cp);
        let c = choose|c: int| s <= c <= e && combos_seq(#[trigger] row_rp(kind, high, c)).contains(cp);
        assert(rps.contains_key(row_rp(kind, high, c)));
        assert(rps.contains_key(row_rp(kind, high, s)));
        lemma_reported_combo(m, rps, row_rp(kind, high, c), cp);
        if c > s {
            let f = combos_seq(row_rp(kind, high, s))[0];
            lemma_reported_combo_first(m, rps, row_rp(kind, high, s));
            lemma_reported_combo_first(m, rps, row_rp(kind, high, c));
        }
    }
}

pub proof fn lemma_reported_combo_first(m: RangeMap, rps: Map<RankPair, f32>, rp: RankPair)
    requires is_rank_pairs_of(rps, m), rps.contains_key(rp),
    ensures m.contains_key(combos_seq(rp)[0]), rps[rp] == m[combos_seq(rp)[0]],
{
    assert(valid_rp(rp) && complete(m, rp));
    let cs = combos_seq(rp);
    assert(cs.len() > 0);
    assert(m.contains_key(cs[0]));
}

/// C06 for one row, completeness: every combo of a reported rank pair of the row is listed by one of the row's tokens
pub proof fn lemma_row_complete(rps: Map<RankPair, f32>, kind: int, high: Rank, c: int, cp: CardPair)
    requires 0 <= kind <= 2, row_top(kind, high) <= c <= 12, rps.contains_key(row_rp(kind, high, c)), combos_seq(row_rp(kind, high, c)).contains(cp),
    ensures covers(row_tokens(rps, kind, high, row_top(kind, high)), row_tokens(rps, kind, high, row_top(kind, high)).len() as int, cp),
{
    hide(combos_seq); hide(expand_combos); hide(run_token); hide(scan_r); hide(scan);
    let lo = row_top(kind, high);
    lemma_row_runs(rps, kind, high, lo);
    let rr = row_runs(rps, kind, high, lo);
    let ts = row_tokens(rps, kind, high, lo);
    let j = choose|j: int| 0 <= j < rr.len() && (#[trigger] rr[j]).0 <= c <= rr[j].1;
    lemma_run_token_lists(kind, high, rr[j].0, rr[j].1, rps[row_rp(kind, high, rr[j].0)], cp);
    assert(in_token(ts[j], cp));
}

// ---------- leftover combos ----------

pub open spec fn all_ok(m: RangeMap, ts: Seq<HandRangeToken>) -> bool {
    forall|j: int| 0 <= j < ts.len() ==> tok_ok(m, #[trigger] ts[j])
}

pub proof fn lemma_all_ok_concat(m: RangeMap, a: Seq<HandRangeToken>, b: Seq<HandRangeToken>)
    requires all_ok(m, a), all_ok(m, b),
    ensures all_ok(m, a + b),
{
    assert forall|j: int| 0 <= j < (a + b).len() implies tok_ok(m, #[trigger] (a + b)[j]) by {
        if j < a.len() { assert((a + b)[j] == a[j]); } else { assert((a + b)[j] == b[j - a.len()]); }
    }
}

pub proof fn lemma_covers_concat(a: Seq<HandRangeToken>, b: Seq<HandRangeToken>, cp: CardPair)
    requires covers(a, a.len() as int, cp) || covers(b, b.len() as int, cp),
    ensures covers(a + b, (a + b).len() as int, cp),
{
    if covers(a, a.len() as int, cp) {
        let j = choose|j: int| 0 <= j < a.len() && in_token(#[trigger] a[j], cp);
        assert((a + b)[j] == a[j]);
        assert(in_token((a + b)[j], cp));
    } else {
        let j = choose|j: int| 0 <= j < b.len() && in_token(#[trigger] b[j], cp);
        assert((a + b)[a.len() + j] == b[j]);
        assert(in_token((a + b)[a.len() + j], cp));
    }
}

pub proof fn lemma_orph_sound(m: RangeMap, rps: Map<RankPair, f32>, orph: RangeMap, n: int)
    requires is_orphans_of(orph, rps, m), 0 <= n,
    ensures all_ok(m, orph_prefix(orph, n)),
    decreases n
{
    if n > 0 {
        lemma_orph_sound(m, rps, orph, n - 1);
        let t = orph_tok(orph, n - 1);
        assert(all_ok(m, t)) by {
            if t.len() > 0 {
                let tk = t[0];
                assert forall|cp: CardPair| in_token(tk, cp) implies m.contains_key(cp) && m[cp] == tok_p(tk) by {
                    let i = choose|i: int| 0 <= i < expand_combos(tk).len() && expand_combos(tk)[i] == cp;
                    assert(orph.contains_key(cp));
                }
            }
        }
        lemma_all_ok_concat(m, orph_prefix(orph, n - 1), t);
    } else {
        assert(orph_prefix(orph, n) =~= Seq::<HandRangeToken>::empty());
    }
}

pub proof fn lemma_orph_prefix_covers(orph: RangeMap, big: int, n: int, cp: CardPair)
    requires 0 <= n < big, covers(orph_tok(orph, n), orph_tok(orph, n).len() as int, cp),
    ensures covers(orph_prefix(orph, big), orph_prefix(orph, big).len() as int, cp),
    decreases big
{
    if n == big - 1 {
        lemma_covers_concat(orph_prefix(orph, big - 1), orph_tok(orph, big - 1), cp);
    } else {
        lemma_orph_prefix_covers(orph, big - 1, n, cp);
        lemma_covers_concat(orph_prefix(orph, big - 1), orph_tok(orph, big - 1), cp);
    }
}

/// keys are in canonical form (what CardPair::new builds): the card that orders first comes first
pub open spec fn keys_canonical(m: RangeMap) -> bool {
    forall|cp: CardPair| #[trigger] m.contains_key(cp) ==> card_code(cp.0) <= card_code(cp.1)
}

pub proof fn lemma_orph_complete(orph: RangeMap, cp: CardPair)
    requires orph.contains_key(cp), card_code(cp.0) <= card_code(cp.1),
    ensures covers(orph_prefix(orph, 2704), orph_prefix(orph, 2704).len() as int, cp),
{
    let hr = rank_code(cp.0.0);
    let kr = rank_code(cp.1.0);
    let hs = suit_code(cp.0.1);
    let ks = suit_code(cp.1.1);
    lemma_rank_codes(cp.0.0);
    lemma_rank_codes(cp.1.0);
    lemma_idx(hr, kr, hs, ks);
    let n = ((hr * 13 + kr) * 4 + hs) * 4 + ks;
    assert(mk_card(rank_of_code(hr), hs) == cp.0);
    assert(mk_card(rank_of_code(kr), ks) == cp.1);
    assert(pair_of(cp.0, cp.1) == cp);
    assert(kr >= hr);
    let t = orph_tok(orph, n);
    assert(t.len() == 1);
    assert(expand_combos(t[0]) =~= seq![cp]);
    assert(expand_combos(t[0])[0] == cp);
    assert(in_token(t[0], cp));
    assert(n < 2704) by (nonlinear_arith) requires n == hr * 208 + kr * 16 + hs * 4 + ks, 0 <= hr < 13, 0 <= kr < 13, 0 <= hs < 4, 0 <= ks < 4;
    lemma_orph_prefix_covers(orph, 2704, n, cp);
}

// ---------- rows under the high cards ----------

pub proof fn lemma_row_all_ok(m: RangeMap, rps: Map<RankPair, f32>, kind: int, high: Rank)
    requires is_rank_pairs_of(rps, m), weights_plain(m), 0 <= kind <= 2,
    ensures all_ok(m, row_tokens(rps, kind, high, row_top(kind, high))),
{
    lemma_rank_codes(high);
    let ts = row_tokens(rps, kind, high, row_top(kind, high));
    assert forall|j: int| 0 <= j < ts.len() implies tok_ok(m, #[trigger] ts[j]) by {
        lemma_row_sound(m, rps, kind, high, j);
    }
}

pub proof fn lemma_high_rows_sound(m: RangeMap, rps: Map<RankPair, f32>, h: int)
    requires is_rank_pairs_of(rps, m), weights_plain(m), 0 <= h <= 12,
    ensures all_ok(m, high_rows(rps, h)),
    decreases h
{
    if h > 0 {
        lemma_high_rows_sound(m, rps, h - 1);
        let high = rank_of_code(h - 1);
        lemma_rank_codes(high);
        assert(rank_code(high) == h - 1);
        lemma_row_all_ok(m, rps, 1, high);
        lemma_row_all_ok(m, rps, 2, high);
        lemma_all_ok_concat(m, high_rows(rps, h - 1), row_tokens(rps, 1, high, h));
        lemma_all_ok_concat(m, high_rows(rps, h - 1) + row_tokens(rps, 1, high, h), row_tokens(rps, 2, high, h));
    } else {
        assert(high_rows(rps, h) =~= Seq::<HandRangeToken>::empty());
    }
}

pub proof fn lemma_high_rows_complete(rps: Map<RankPair, f32>, h: int, kind: int, hc: int, c: int, cp: CardPair)
    requires 0 <= hc < h <= 12, 1 <= kind <= 2, hc < c <= 12,
        rps.contains_key(row_rp(kind, rank_of_code(hc), c)), combos_seq(row_rp(kind, rank_of_code(hc), c)).contains(cp),
    ensures covers(high_rows(rps, h), high_rows(rps, h).len() as int, cp),
    decreases h
{
    let high = rank_of_code(h - 1);
    lemma_rank_codes(high);
    assert(rank_code(high) == h - 1);
    let a = high_rows(rps, h - 1);
    let b = row_tokens(rps, 1, high, h);
    let d = row_tokens(rps, 2, high, h);
    if hc == h - 1 {
        lemma_row_complete(rps, kind, high, c, cp);
        if kind == 1 {
            lemma_covers_concat(a, b, cp);
            lemma_covers_concat(a + b, d, cp);
        } else {
            lemma_covers_concat(a + b, d, cp);
        }
    } else {
        lemma_high_rows_complete(rps, h - 1, kind, hc, c, cp);
        lemma_covers_concat(a, b, cp);
        lemma_covers_concat(a + b, d, cp);
    }
}

// ---------- the theorem ----------

/// C06 at token-list level: folding the canonical token list of a range back into a map gives the range,
/// the same combos with identical weights
pub proof fn lemma_round_trip(m: RangeMap, rps: Map<RankPair, f32>, orph: RangeMap)
    requires is_rank_pairs_of(rps, m), is_orphans_of(orph, rps, m), weights_plain(m), keys_canonical(m),
    ensures apply_tokens(canonical(rps, orph), canonical(rps, orph).len() as int) =~= m,
{
    let a = row_tokens(rps, 0, Rank::Ace, 0);
    let b = high_rows(rps, 12);
    let c = orph_prefix(orph, 2704);
    let ts = canonical(rps, orph);
    assert(ts == a + b + c);
    lemma_row_all_ok(m, rps, 0, Rank::Ace);
    lemma_high_rows_sound(m, rps, 12);
    lemma_orph_sound(m, rps, orph, 2704);
    lemma_all_ok_concat(m, a, b);
    lemma_all_ok_concat(m, a + b, c);
    lemma_partition(orph, rps, m);
    let out = apply_tokens(ts, ts.len() as int);
    assert forall|cp: CardPair| out.contains_key(cp) <==> m.contains_key(cp) by {
        let w = if m.contains_key(cp) { m[cp] } else { 0.0f32 };
        assert forall|j: int| 0 <= j < ts.len() && in_token(#[trigger] ts[j], cp) implies tok_p(ts[j]) == w by { assert(tok_ok(m, ts[j])); }
        lemma_apply_tokens_char(ts, ts.len() as int, cp, w);
        if covers(ts, ts.len() as int, cp) {
            let j = choose|j: int| 0 <= j < ts.len() && in_token(#[trigger] ts[j], cp);
            assert(tok_ok(m, ts[j]));
        }
        if m.contains_key(cp) {
            lemma_canon_covers(m, rps, orph, cp);
        }
    }
    assert forall|cp: CardPair| out.contains_key(cp) implies out[cp] == m[cp] by {
        let w = m[cp];
        assert forall|j: int| 0 <= j < ts.len() && in_token(#[trigger] ts[j], cp) implies tok_p(ts[j]) == w by { assert(tok_ok(m, ts[j])); }
        lemma_apply_tokens_char(ts, ts.len() as int, cp, w);
    }
}

pub proof fn lemma_canon_covers(m: RangeMap, rps: Map<RankPair, f32>, orph: RangeMap, cp: CardPair)
    requires is_rank_pairs_of(rps, m), is_orphans_of(orph, rps, m), keys_canonical(m), m.contains_key(cp),
    ensures covers(canonical(rps, orph), canonical(rps, orph).len() as int, cp),
{
    let a = row_tokens(rps, 0, Rank::Ace, 0);
    let b = high_rows(rps, 12);
    let c = orph_prefix(orph, 2704);
    if orph.contains_key(cp) {
        lemma_orph_complete(orph, cp);
        lemma_covers_concat(a + b, c, cp);
    } else {
        assert(covered(rps, cp));
        let rp = choose|rp: RankPair| #[trigger] rps.contains_key(rp) && combos_seq(rp).contains(cp);
        assert(valid_rp(rp));
        match rp {
            RankPair::Pocket(r) => {
                lemma_rank_codes(r);
                assert(row_rp(0, Rank::Ace, rank_code(r)) == rp);
                lemma_row_complete(rps, 0, Rank::Ace, rank_code(r), cp);
                lemma_covers_concat(a, b, cp);
                lemma_covers_concat(a + b, c, cp);
            }
            RankPair::Suited(h, k) => {
                lemma_rank_codes(h); lemma_rank_codes(k);
                assert(row_rp(1, rank_of_code(rank_code(h)), rank_code(k)) == rp);
                lemma_high_rows_complete(rps, 12, 1, rank_code(h), rank_code(k), cp);
                lemma_covers_concat(a, b, cp);
                lemma_covers_concat(a + b, c, cp);
            }
            RankPair::Ofsuit(h, k) => {
                lemma_rank_codes(h); lemma_rank_codes(k);
                assert(row_rp(2, rank_of_code(rank_code(h)), rank_code(k)) == rp);
                lemma_high_rows_complete(rps, 12, 2, rank_code(h), rank_code(k), cp);
                lemma_covers_concat(a, b, cp);
                lemma_covers_concat(a + b, c, cp);
            }
        }
    }
}

// ---------- from tokens to text and back (the text layer is a hypothesis here) ----------

/// given the two views of a range (the real rank_pairs() / orphan_card_pairs() return them, unit RANGE), canon(m) is
/// the canonical list of exactly those views
pub proof fn lemma_canon_of_views(m: RangeMap, rps: Map<RankPair, f32>, orph: RangeMap)
    requires is_rank_pairs_of(rps, m), is_orphans_of(orph, rps, m),
    ensures canon(m) == canonical(rps, orph),
{
    let rr = rank_pairs_of(m);
    assert(is_rank_pairs_of(rr, m));
    lemma_rank_pairs_unique(rr, rps, m);
    let oo = orphans_of(m);
    assert(is_orphans_of(oo, rr, m));
    lemma_orphans_unique(oo, orph, rps, m);
}

/// pieces of text that parse to the tokens ts, one by one, fold to the same map as the tokens
pub proof fn lemma_parts_tokens(parts: Seq<Seq<char>>, ts: Seq<HandRangeToken>, n: int)
    requires 0 <= n <= ts.len(), parts.len() == ts.len(), forall|j: int| 0 <= j < ts.len() ==> parse_tok(#[trigger] parts[j]) == Some(ts[j]),
    ensures apply_parts(parts, n) == apply_tokens(ts, n),
    decreases n
{
    if n > 0 { lemma_parts_tokens(parts, ts, n - 1); }
}

/// TEXT-LAYER HYPOTHESIS of C06 (not proved here: core::fmt::Formatter, f32 Display, String::replace / split):
/// the text `s` is the tokens' own texts joined by commas -- stripping blanks and splitting at commas gives one
/// piece per token, each piece parses back to its token, and the text is empty exactly when there is no token
pub open spec fn text_of_tokens(s: Seq<char>, ts: Seq<HandRangeToken>) -> bool {
    let t = strip_spaces(s);
    let parts = split_commas(t);
    &&& (t.len() == 0 <==> ts.len() == 0)
    &&& ts.len() > 0 ==> parts.len() == ts.len() && forall|j: int| 0 <= j < ts.len() ==> parse_tok(#[trigger] parts[j]) == Some(ts[j])
}

/// C06: if `s` is the text of the canonical token list of the range m (FMT: the token list Display builds IS
/// canon(m)), then what HandRange::from_str returns for s (LIST: range_of_text(s)) is m again
pub proof fn lemma_c06(m: RangeMap, rps: Map<RankPair, f32>, orph: RangeMap, s: Seq<char>)
    requires is_rank_pairs_of(rps, m), is_orphans_of(orph, rps, m), weights_plain(m), keys_canonical(m), text_of_tokens(s, canon(m)),
    ensures range_of_text(s) =~= m,
{
    lemma_canon_of_views(m, rps, orph);
    let ts = canon(m);
    lemma_round_trip(m, rps, orph);
    if ts.len() > 0 {
        lemma_parts_tokens(split_commas(strip_spaces(s)), ts, ts.len() as int);
    }
}
