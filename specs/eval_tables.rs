// ===========================================================================
// Unit EVAL: rainbow hash spec, table premise `tables_ok()`, exec twins of the
// spec functions and the verified table checker (DESIGN.md sections 3.4, 5).
// Included after the real REF_* / AS_* constants and the real `dp_ref`.
// ===========================================================================

/// dp_spec mirrors the shape of `dp_ref`; its *meaning* comes from tables_ok().
pub open spec fn dp_row(len: int, code: int) -> Seq<u16> {
    if len == 1 {
        if code == 0 { REF_ONE_A@ } else if code == 1 { REF_ONE_K@ } else if code == 2 { REF_ONE_Q@ }
        else if code == 3 { REF_ONE_J@ } else if code == 4 { REF_ONE_T@ } else if code == 5 { REF_ONE_9@ }
        else if code == 6 { REF_ONE_8@ } else if code == 7 { REF_ONE_7@ } else if code == 8 { REF_ONE_6@ }
        else if code == 9 { REF_ONE_5@ } else if code == 10 { REF_ONE_4@ } else if code == 11 { REF_ONE_3@ }
        else { REF_ONE_2@ }
    } else if len == 2 {
        if code == 0 { REF_TWO_A@ } else if code == 1 { REF_TWO_K@ } else if code == 2 { REF_TWO_Q@ }
        else if code == 3 { REF_TWO_J@ } else if code == 4 { REF_TWO_T@ } else if code == 5 { REF_TWO_9@ }
        else if code == 6 { REF_TWO_8@ } else if code == 7 { REF_TWO_7@ } else if code == 8 { REF_TWO_6@ }
        else if code == 9 { REF_TWO_5@ } else if code == 10 { REF_TWO_4@ } else if code == 11 { REF_TWO_3@ }
        else { REF_TWO_2@ }
    } else if len == 3 {
        if code == 0 { REF_THREE_A@ } else if code == 1 { REF_THREE_K@ } else if code == 2 { REF_THREE_Q@ }
        else if code == 3 { REF_THREE_J@ } else if code == 4 { REF_THREE_T@ } else if code == 5 { REF_THREE_9@ }
        else if code == 6 { REF_THREE_8@ } else if code == 7 { REF_THREE_7@ } else if code == 8 { REF_THREE_6@ }
        else if code == 9 { REF_THREE_5@ } else if code == 10 { REF_THREE_4@ } else if code == 11 { REF_THREE_3@ }
        else { REF_THREE_2@ }
    } else {
        if code == 0 { REF_FOUR_A@ } else if code == 1 { REF_FOUR_K@ } else if code == 2 { REF_FOUR_Q@ }
        else if code == 3 { REF_FOUR_J@ } else if code == 4 { REF_FOUR_T@ } else if code == 5 { REF_FOUR_9@ }
        else if code == 6 { REF_FOUR_8@ } else if code == 7 { REF_FOUR_7@ } else if code == 8 { REF_FOUR_6@ }
        else if code == 9 { REF_FOUR_5@ } else if code == 10 { REF_FOUR_4@ } else if code == 11 { REF_FOUR_3@ }
        else { REF_FOUR_2@ }
    }
}

pub open spec fn dp_spec(len: int, code: int, rem: int) -> int {
    dp_row(len, code)[rem] as int
}

/// contribution of rank codes r, r-1, ..., 0 to the rainbow hash with `rem` cards not yet consumed
pub open spec fn h_rec(q: Seq<u8>, r: int, rem: int) -> int
    decreases r + 1
{
    if r < 0 { 0 }
    else if q[r] == 0 { h_rec(q, r - 1, rem) }
    else { dp_spec(q[r] as int, r, rem) + if rem - q[r] <= 0 { 0 } else { h_rec(q, r - 1, rem - q[r]) } }
}

pub open spec fn hash_spec(q: Seq<u8>) -> int { h_rec(q, 12, 7) }

/// sum of q[0..=r]
pub open spec fn psum(q: Seq<u8>, r: int) -> int
    decreases r + 1
{
    if r < 0 { 0 } else { q[r] as int + psum(q, r - 1) }
}

// ---------- the table premise ----------

pub open spec fn flush_slot_ok(f: Seq<u8>) -> bool {
    let m = mask_val(f, 0);
    let b = best_of(f, true, vsum(f, 0));
    0 <= m < 8192 && AS_FLUSH[m] as int == b && 1 <= b <= 1599
}

pub open spec fn rainbow_slot_ok(q: Seq<u8>) -> bool {
    let h = hash_spec(q);
    let b = best_of(q, false, 7);
    0 <= h < 49205 && AS_RAINBOW[h] as int == b && 11 <= b <= 7462
}

/// closed forms land in their category's interval, for every five-card vector
pub open spec fn class5_slot_ok(q: Seq<u8>, flush: bool) -> bool {
    1 <= class5(q, flush) <= 7462 && category(class5(q, flush)) == pattern_cat(q, flush)
}

pub open spec fn leaf_ok(v: Seq<u8>, kind: int) -> bool {
    if kind == 0 { vsum(v, 0) == 7 ==> rainbow_slot_ok(v) }
    else if kind == 1 { 5 <= vsum(v, 0) <= 7 ==> flush_slot_ok(v) }
    else if kind == 2 { vsum(v, 0) == 5 ==> class5_slot_ok(v, false) }
    else { vsum(v, 0) == 5 ==> class5_slot_ok(v, true) }
}

pub open spec fn kind_cap(kind: int) -> int { if kind == 0 || kind == 2 { 4 } else { 1 } }

pub open spec fn tables_ok() -> bool {
    &&& forall|q: Seq<u8>| vec_ok(q, 4) && vsum(q, 0) == 7 ==> #[trigger] rainbow_slot_ok(q)
    &&& forall|f: Seq<u8>| vec_ok(f, 1) && 5 <= vsum(f, 0) <= 7 ==> #[trigger] flush_slot_ok(f)
}

pub open spec fn classes_ok() -> bool {
    &&& forall|q: Seq<u8>| vec_ok(q, 4) && vsum(q, 0) == 5 ==> #[trigger] class5_slot_ok(q, false)
    &&& forall|f: Seq<u8>| vec_ok(f, 1) && vsum(f, 0) == 5 ==> #[trigger] class5_slot_ok(f, true)
}

// ---------- lemmas ----------

pub proof fn lemma_binom_bound(n: int, k: int)
    requires 0 <= n,
    ensures 0 <= binom(n, k) <= pow2(n),
    decreases n
{
    if k <= 0 || n <= 0 { lemma_pow2_pos(n); } else {
        lemma_binom_bound(n - 1, k - 1);
        lemma_binom_bound(n - 1, k);
    }
}

pub proof fn lemma_pow2_pos(n: int)
    ensures pow2(n) >= 1,
    decreases n
{
    if n > 0 { lemma_pow2_pos(n - 1); }
}

pub proof fn lemma_pow2_mono(a: int, b: int)
    requires a <= b,
    ensures pow2(a) <= pow2(b),
    decreases b - a
{
    if a < b { lemma_pow2_mono(a, b - 1); lemma_pow2_pos(b - 1); }
}

pub proof fn lemma_pow2_13()
    ensures pow2(13) == 8192, pow2(12) == 4096, pow2(0) == 1
{
    assert(pow2(13) == 8192) by (compute);
    assert(pow2(12) == 4096) by (compute);
    assert(pow2(0) == 1) by (compute);
}

pub proof fn lemma_vsum_bounds(q: Seq<u8>, from: int, cap: int)
    requires vec_ok(q, cap), 0 <= from <= 13, 0 <= cap,
    ensures 0 <= vsum(q, from) <= cap * (13 - from),
    decreases 13 - from
{
    if from < 13 {
        lemma_vsum_bounds(q, from + 1, cap);
        assert(0 <= q[from] <= cap);
        assert(cap * (13 - from) == cap * (13 - (from + 1)) + cap) by (nonlinear_arith);
    } else {
        assert(cap * (13 - from) == 0) by (nonlinear_arith) requires from == 13;
    }
}

/// vsum only depends on the suffix
pub proof fn lemma_vsum_ext(a: Seq<u8>, b: Seq<u8>, from: int)
    requires a.len() == 13, b.len() == 13, 0 <= from <= 13, forall|i: int| from <= i < 13 ==> a[i] == b[i],
    ensures vsum(a, from) == vsum(b, from),
    decreases 13 - from
{
    if from < 13 { lemma_vsum_ext(a, b, from + 1); }
}

pub proof fn lemma_vsum_dec(q: Seq<u8>, a: int, from: int)
    requires q.len() == 13, 0 <= a < 13, q[a] > 0, 0 <= from <= 13,
    ensures vsum(vdec(q, a), from) == vsum(q, from) - if from <= a { 1int } else { 0int },
    decreases 13 - from
{
    if from < 13 { lemma_vsum_dec(q, a, from + 1); }
}

// ---------- exec twins ----------

pub struct Tbl { pub c: Vec<i64> }

pub open spec fn tbl_ok(t: &Tbl) -> bool {
    t.c.len() == 84 && forall|n: int, k: int| 0 <= n < 14 && 0 <= k < 6 ==> #[trigger] t.c@[n * 6 + k] == binom(n, k)
}

pub fn build_tbl() -> (t: Tbl)
    ensures tbl_ok(&t)
{
    let mut c: Vec<i64> = Vec::new();
    let mut n: usize = 0;
    while n < 14
        invariant 0 <= n <= 14, c.len() == n * 6,
            forall|a: int, b: int| 0 <= a < n && 0 <= b < 6 ==> #[trigger] c@[a * 6 + b] == binom(a, b),
        decreases 14 - n
    {
        let mut k: usize = 0;
        while k < 6
            invariant 0 <= n < 14, 0 <= k <= 6, c.len() == n * 6 + k,
                forall|a: int, b: int| 0 <= a < n && 0 <= b < 6 ==> #[trigger] c@[a * 6 + b] == binom(a, b),
                forall|b: int| 0 <= b < k ==> #[trigger] c@[n * 6 + b] == binom(n as int, b),
            decreases 6 - k
        {
            let v: i64 = if k == 0 { 1 } else if n == 0 { 0 } else {
                proof {
                    lemma_binom_bound(n as int - 1, k as int - 1);
                    lemma_binom_bound(n as int - 1, k as int);
                    lemma_pow2_mono(n as int - 1, 13);
                    lemma_pow2_13();
                    assert(c@[(n as int - 1) * 6 + (k as int - 1)] == binom(n as int - 1, k as int - 1));
                    assert(c@[(n as int - 1) * 6 + k as int] == binom(n as int - 1, k as int));
                }
                c[(n - 1) * 6 + k - 1] + c[(n - 1) * 6 + k]
            };
            let ghost old_c = c@;
            c.push(v);
            proof {
                assert forall|a: int, b: int| 0 <= a < n && 0 <= b < 6 implies #[trigger] c@[a * 6 + b] == binom(a, b) by {
                    assert(c@[a * 6 + b] == old_c[a * 6 + b]);
                }
                assert forall|b: int| 0 <= b < k + 1 implies #[trigger] c@[n * 6 + b] == binom(n as int, b) by {
                    if b < k { assert(c@[n * 6 + b] == old_c[n * 6 + b]); }
                }
            }
            k += 1;
        }
        n += 1;
    }
    Tbl { c }
}

pub fn binom_exec(t: &Tbl, n: i64, k: i64) -> (r: i64)
    requires tbl_ok(t), -1 <= n <= 13, -1 <= k <= 5,
    ensures r == binom(n as int, k as int), 0 <= r <= 8192,
{
    proof { if n >= 0 { lemma_binom_bound(n as int, k as int); lemma_pow2_mono(n as int, 13); lemma_pow2_13(); } }
    if k < 0 { 0 } else if k == 0 { 1 } else if n <= 0 { 0 } else {
        assert(t.c@[n as int * 6 + k as int] == binom(n as int, k as int));
        t.c[(n * 6 + k) as usize]
    }
}

pub fn skip_exec(t: &Tbl, n: i64, k: i64, lo: i64, hi: i64) -> (r: i64)
    requires tbl_ok(t), 12 <= n <= 13, 1 <= k <= 5, 0 <= lo <= 14, 0 <= hi <= 13,
    ensures r == skip(n as int, k as int, lo as int, hi as int), 0 <= r <= 13 * 8192,
{
    let mut x = hi;
    let mut acc: i64 = 0;
    if lo >= hi { return 0; }
    while x > lo
        invariant lo <= x <= hi, tbl_ok(t), 12 <= n <= 13, 1 <= k <= 5, 0 <= lo <= 14, 0 <= hi <= 13,
            acc == skip(n as int, k as int, x as int, hi as int), 0 <= acc <= (hi - x) * 8192,
        decreases x - lo
    {
        x = x - 1;
        let c = binom_exec(t, n - x - 1, k - 1);
        acc = acc + c;
    }
    acc
}

pub fn first_eq_exec(q: &[u8; 13], v: u8, from: i64) -> (r: i64)
    requires 0 <= from <= 14,
    ensures r == first_eq(q@, v as int, from as int), from <= r <= 13 || (from > 13 && r == 13),
{
    let mut i = from;
    while i < 13
        invariant 0 <= from <= i <= 14, first_eq(q@, v as int, from as int) == first_eq(q@, v as int, i as int),
        decreases 14 - i
    {
        if q[i as usize] == v { return i; }
        i = i + 1;
    }
    13
}

pub fn reidx_exec(k: i64, a: i64, b: i64) -> (r: i64)
    requires 0 <= k <= 13, 0 <= a <= 13, 0 <= b <= 13,
    ensures r == reidx(k as int, a as int, b as int), -2 <= r <= 13, a != b ==> r >= 0,
{
    k - (if a < k { 1 } else { 0 }) - (if b < k { 1 } else { 0 })
}

pub fn lt5_exec(a0: i64, a1: i64, a2: i64, a3: i64, a4: i64, c0: i64, c1: i64, c2: i64, c3: i64, c4: i64) -> (r: i64)
    ensures r == lt5(a0 as int, a1 as int, a2 as int, a3 as int, a4 as int, c0 as int, c1 as int, c2 as int, c3 as int, c4 as int), 0 <= r <= 1
{
    if a0 != c0 { if a0 < c0 { 1 } else { 0 } }
    else if a1 != c1 { if a1 < c1 { 1 } else { 0 } }
    else if a2 != c2 { if a2 < c2 { 1 } else { 0 } }
    else if a3 != c3 { if a3 < c3 { 1 } else { 0 } }
    else if a4 < c4 { 1 } else { 0 }
}

pub fn clamp12(x: i64) -> (r: i64)
    ensures 0 <= r <= 13, (0 <= x <= 13) ==> r == x
{
    if x < 0 { 0 } else if x > 13 { 13 } else { x }
}

pub fn lexrank2_exec(t: &Tbl, a: i64, b: i64, n: i64) -> (r: i64)
    requires tbl_ok(t), 12 <= n <= 13, 0 <= a <= 13, 0 <= b <= 13,
    ensures r == lexrank2(a as int, b as int, n as int), 0 <= r <= 2 * 13 * 8192
{
    skip_exec(t, n, 2, 0, a) + skip_exec(t, n, 1, a + 1, b)
}

pub fn lexrank3_exec(t: &Tbl, a: i64, b: i64, c: i64, n: i64) -> (r: i64)
    requires tbl_ok(t), 12 <= n <= 13, 0 <= a <= 13, 0 <= b <= 13, 0 <= c <= 13,
    ensures r == lexrank3(a as int, b as int, c as int, n as int), 0 <= r <= 3 * 13 * 8192
{
    skip_exec(t, n, 3, 0, a) + skip_exec(t, n, 2, a + 1, b) + skip_exec(t, n, 1, b + 1, c)
}

pub fn lexrank5_exec(t: &Tbl, c0: i64, c1: i64, c2: i64, c3: i64, c4: i64) -> (r: i64)
    requires tbl_ok(t), 0 <= c0 <= 13, 0 <= c1 <= 13, 0 <= c2 <= 13, 0 <= c3 <= 13, 0 <= c4 <= 13,
    ensures r == lexrank5(c0 as int, c1 as int, c2 as int, c3 as int, c4 as int), 0 <= r <= 5 * 13 * 8192
{
    skip_exec(t, 13, 5, 0, c0) + skip_exec(t, 13, 4, c0 + 1, c1) + skip_exec(t, 13, 3, c1 + 1, c2)
        + skip_exec(t, 13, 2, c2 + 1, c3) + skip_exec(t, 13, 1, c3 + 1, c4)
}

pub fn straight_top_exec(c0: i64, c1: i64, c2: i64, c3: i64, c4: i64) -> (r: i64)
    requires 0 <= c0 <= 13, 0 <= c1 <= 13, 0 <= c2 <= 13, 0 <= c3 <= 13, 0 <= c4 <= 13,
    ensures r == straight_top(c0 as int, c1 as int, c2 as int, c3 as int, c4 as int), -1 <= r <= 13
{
    if c1 == c0 + 1 && c2 == c0 + 2 && c3 == c0 + 3 && c4 == c0 + 4 { c0 }
    else if c0 == 0 && c1 == 9 && c2 == 10 && c3 == 11 && c4 == 12 { 9 }
    else { -1 }
}

pub fn straights_before_exec(c0: i64, c1: i64, c2: i64, c3: i64, c4: i64) -> (r: i64)
    ensures r == straights_before(c0 as int, c1 as int, c2 as int, c3 as int, c4 as int), 0 <= r <= 10
{
    lt5_exec(0, 1, 2, 3, 4, c0, c1, c2, c3, c4) + lt5_exec(0, 9, 10, 11, 12, c0, c1, c2, c3, c4)
    + lt5_exec(1, 2, 3, 4, 5, c0, c1, c2, c3, c4) + lt5_exec(2, 3, 4, 5, 6, c0, c1, c2, c3, c4)
    + lt5_exec(3, 4, 5, 6, 7, c0, c1, c2, c3, c4) + lt5_exec(4, 5, 6, 7, 8, c0, c1, c2, c3, c4)
    + lt5_exec(5, 6, 7, 8, 9, c0, c1, c2, c3, c4) + lt5_exec(6, 7, 8, 9, 10, c0, c1, c2, c3, c4)
    + lt5_exec(7, 8, 9, 10, 11, c0, c1, c2, c3, c4) + lt5_exec(8, 9, 10, 11, 12, c0, c1, c2, c3, c4)
}

pub fn class5_exec(t: &Tbl, q: &[u8; 13], flush: bool) -> (r: i64)
    requires tbl_ok(t),
    ensures r == class5(q@, flush), -1000000 <= r <= 100000000,
{
    let four = first_eq_exec(q, 4, 0);
    let three = first_eq_exec(q, 3, 0);
    let p1 = first_eq_exec(q, 2, 0);
    let p2 = first_eq_exec(q, 2, p1 + 1);
    let s1 = first_eq_exec(q, 1, 0);
    let s2 = first_eq_exec(q, 1, s1 + 1);
    let s3 = first_eq_exec(q, 1, s2 + 1);
    let s4 = first_eq_exec(q, 1, s3 + 1);
    let s5 = first_eq_exec(q, 1, s4 + 1);
    if four < 13 {
        11 + 12 * four + reidx_exec(s1, four, 13)
    } else if three < 13 && p1 < 13 {
        167 + 12 * three + reidx_exec(p1, three, 13)
    } else if three < 13 {
        1610 + 66 * three + lexrank2_exec(t, reidx_exec(s1, three, 13), reidx_exec(s2, three, 13), 12)
    } else if p1 < 13 && p2 < 13 {
        2468 + 11 * lexrank2_exec(t, p1, p2, 13) + reidx_exec(s1, p1, p2)
    } else if p1 < 13 {
        3326 + 220 * p1 + lexrank3_exec(t, reidx_exec(s1, p1, 13), reidx_exec(s2, p1, 13), reidx_exec(s3, p1, 13), 12)
    } else {
        let tt = straight_top_exec(s1, s2, s3, s4, s5);
        let hc = lexrank5_exec(t, s1, s2, s3, s4, s5) - straights_before_exec(s1, s2, s3, s4, s5);
        if tt >= 0 {
            if flush { 1 + tt } else { 1600 + tt }
        } else {
            if flush { 323 + hc } else { 6186 + hc }
        }
    }
}

pub fn pattern_cat_exec(q: &[u8; 13], flush: bool) -> (r: i64)
    ensures r == pattern_cat(q@, flush)
{
    let s1 = first_eq_exec(q, 1, 0);
    let s2 = first_eq_exec(q, 1, s1 + 1);
    let s3 = first_eq_exec(q, 1, s2 + 1);
    let s4 = first_eq_exec(q, 1, s3 + 1);
    let s5 = first_eq_exec(q, 1, s4 + 1);
    let straight = s5 < 13 && straight_top_exec(s1, s2, s3, s4, s5) >= 0;
    if first_eq_exec(q, 4, 0) < 13 { 7 }
    else if first_eq_exec(q, 3, 0) < 13 && first_eq_exec(q, 2, 0) < 13 { 6 }
    else if first_eq_exec(q, 3, 0) < 13 { 3 }
    else if first_eq_exec(q, 2, first_eq_exec(q, 2, 0) + 1) < 13 { 2 }
    else if first_eq_exec(q, 2, 0) < 13 { 1 }
    else if straight && flush { 8 }
    else if flush { 5 }
    else if straight { 4 }
    else { 0 }
}

pub fn category_exec(idx: i64) -> (r: i64)
    ensures r == category(idx as int)
{
    if 1 <= idx && idx <= 10 { 8 } else if idx <= 166 { 7 } else if idx <= 322 { 6 } else if idx <= 1599 { 5 }
    else if idx <= 1609 { 4 } else if idx <= 2467 { 3 } else if idx <= 3325 { 2 } else if idx <= 6185 { 1 }
    else { 0 }
}

pub fn vsum_exec(q: &[u8; 13]) -> (r: i64)
    ensures r == vsum(q@, 0), 0 <= r <= 13 * 255
{
    let mut i: usize = 13;
    let mut acc: i64 = 0;
    while i > 0
        invariant 0 <= i <= 13, acc == vsum(q@, i as int), 0 <= acc <= (13 - i) * 255,
        decreases i
    {
        i -= 1;
        acc = acc + q[i] as i64;
    }
    acc
}

/// best_of twin: tries every way of discarding down to five cards
pub fn best_of_exec(t: &Tbl, q: &mut [u8; 13], flush: bool, n: i64) -> (r: i64)
    requires tbl_ok(t), 0 <= n <= 7, vsum(old(q)@, 0) == n,
    ensures final(q)@ == old(q)@, r == best_of(old(q)@, flush, n as int), -1000000 <= r <= 100000000,
    decreases n, 1int
{
    if n <= 5 {
        return class5_exec(t, q, flush);
    }
    let ghost q0 = q@;
    let mut a: usize = 13;
    let mut acc: i64 = 9999;
    while a > 0
        invariant 0 <= a <= 13, q@ == q0, tbl_ok(t), 5 < n <= 7, vsum(q0, 0) == n,
            acc == best_drop(q0, flush, n as int, a as int), -1000000 <= acc <= 100000000,
        decreases a
    {
        a -= 1;
        if q[a] > 0 {
            q[a] = q[a] - 1;
            proof {
                assert(q@ == vdec(q0, a as int));
                lemma_vsum_dec(q0, a as int, 0);
            }
            let sub = best_of_exec(t, q, flush, n - 1);
            q[a] = q[a] + 1;
            proof { assert(q@ =~= q0); }
            if sub <= acc { acc = sub; }
        }
    }
    acc
}

pub fn rank_of_code(c: u8) -> (r: Rank)
    requires c < 13,
    ensures rank_code(r) == c,
{
    match c {
        0 => Rank::Ace, 1 => Rank::King, 2 => Rank::Queen, 3 => Rank::Jack, 4 => Rank::Ten, 5 => Rank::Nine,
        6 => Rank::Eight, 7 => Rank::Seven, 8 => Rank::Six, 9 => Rank::Five, 10 => Rank::Four, 11 => Rank::Trey,
        _ => Rank::Deuce,
    }
}

/// twin of hash_spec; calls the *real* dp_ref
pub fn h_exec(q: &[u8; 13]) -> (r: i64)
    requires vec_ok(q@, 4),
    ensures r == hash_spec(q@), 0 <= r,
{
    let mut r: i64 = 12;
    let mut rem: i64 = 7;
    let mut acc: i64 = 0;
    while r >= 0
        invariant -1 <= r <= 12, 1 <= rem <= 7, vec_ok(q@, 4), 0 <= acc <= (12 - r) * 65535,
            acc + h_rec(q@, r as int, rem as int) == hash_spec(q@),
        decreases r + 1
    {
        let len = q[r as usize];
        assert(0 <= q@[r as int] <= 4);
        if len == 0 {
            r = r - 1;
            continue;
        }
        let rank = rank_of_code(r as u8);
        let d = dp_ref(len, &rank, rem as u8);
        acc = acc + d as i64;
        rem = rem - len as i64;
        if rem <= 0 {
            return acc;
        }
        r = r - 1;
    }
    acc
}

pub fn mask_exec(f: &[u8; 13]) -> (r: i64)
    ensures r == mask_val(f@, 0), 0 <= r <= 13 * 255 * 4096,
{
    let mut i: usize = 13;
    let mut acc: i64 = 0;
    let mut p: i64 = 1;
    proof { lemma_pow2_13(); }
    while i > 0
        invariant 0 <= i <= 13, acc == mask_val(f@, i as int), 0 <= acc <= (13 - i) * 255 * 4096,
            i > 0 ==> p == pow2(12 - (i as int - 1)), 1 <= p <= 4096,
        decreases i
    {
        i -= 1;
        proof { lemma_pow2_mono(12 - i as int, 12); lemma_pow2_13(); }
        assert(f@[i as int] as int * p <= 255 * 4096) by (nonlinear_arith) requires 0 <= f@[i as int] <= 255, 1 <= p <= 4096;
        assert(f@[i as int] as int * p >= 0) by (nonlinear_arith) requires 0 <= f@[i as int] <= 255, 1 <= p <= 4096;
        acc = acc + (f[i] as i64) * p;
        if i > 0 {
            proof { lemma_pow2_mono(12 - (i as int - 1), 12); }
            p = p * 2;
        }
    }
    acc
}

pub fn leaf_check(t: &Tbl, q: &mut [u8; 13], kind: u8) -> (ok: bool)
    requires tbl_ok(t), kind <= 3, vec_ok(old(q)@, kind_cap(kind as int)),
    ensures final(q)@ == old(q)@, ok ==> leaf_ok(old(q)@, kind as int),
{
    let n = vsum_exec(q);
    if kind == 0 {
        if n != 7 { return true; }
        let h = h_exec(q);
        if h < 0 || h >= 49205 { return false; }
        let b = best_of_exec(t, q, false, 7);
        AS_RAINBOW[h as usize] as i64 == b && 11 <= b && b <= 7462
    } else if kind == 1 {
        if n < 5 || n > 7 { return true; }
        let m = mask_exec(q);
        if m < 0 || m >= 8192 { return false; }
        let b = best_of_exec(t, q, true, n);
        AS_FLUSH[m as usize] as i64 == b && 1 <= b && b <= 1599
    } else {
        if n != 5 { return true; }
        let flush = kind == 3;
        let c = class5_exec(t, q, flush);
        1 <= c && c <= 7462 && category_exec(c) == pattern_cat_exec(q, flush)
    }
}

/// candidates below a fixed prefix
pub open spec fn cand(v: Seq<u8>, pre: Seq<u8>, pos: int, rem: int, cap: int) -> bool {
    vec_ok(v, cap) && vsum(v, pos) == rem && forall|k: int| 0 <= k < pos ==> v[k] == pre[k]
}

/// exhaustive walk over all vectors with the given prefix q[0..pos] whose remaining entries sum to rem
#[verifier::loop_isolation(false)]
pub fn walk(t: &Tbl, q: &mut [u8; 13], pos: usize, rem: i64, kind: u8, fail: &mut Vec<u8>) -> (ok: bool)
    requires tbl_ok(t), pos <= 13, 0 <= rem <= 7, kind <= 3,
        forall|k: int| 0 <= k < pos ==> 0 <= #[trigger] old(q)@[k] <= kind_cap(kind as int),
    ensures
        forall|k: int| 0 <= k < pos ==> #[trigger] final(q)@[k] == old(q)@[k],
        ok ==> forall|v: Seq<u8>| #[trigger] cand(v, old(q)@, pos as int, rem as int, kind_cap(kind as int)) ==> leaf_ok(v, kind as int),
    decreases 13 - pos
{
    let ghost q0 = q@;
    let ghost cap = kind_cap(kind as int);
    if pos == 13 {
        if rem != 0 {
            return true;
        }
        proof {
            assert forall|v: Seq<u8>| #[trigger] cand(v, q0, 13, 0, cap) implies v == q0 by { assert(v =~= q0); }
        }
        let ok = leaf_check(t, q, kind);
        if !ok && fail.len() == 0 {
            let mut i: usize = 0;
            while i < 13 invariant 0 <= i <= 13 decreases 13 - i { fail.push(q[i]); i += 1; }
            fail.push(kind);
        }
        return ok;
    }
    let capx: i64 = if kind == 0 || kind == 2 { 4 } else { 1 };
    let mut c: i64 = 0;
    while c <= capx && c <= rem
        invariant 0 <= c <= 5, capx == cap, 1 <= capx <= 4, pos < 13, q0.len() == 13, 0 <= rem <= 7, kind <= 3, tbl_ok(t),
            forall|k: int| 0 <= k < pos ==> #[trigger] q@[k] == q0[k],
            forall|k: int| 0 <= k < pos ==> 0 <= #[trigger] q0[k] <= cap,
            cap == kind_cap(kind as int),
            forall|v: Seq<u8>| #[trigger] cand(v, q0, pos as int, rem as int, cap) && v[pos as int] < c ==> leaf_ok(v, kind as int),
        decreases 6 - c
    {
        let ghost qprev = q@;
        q[pos] = c as u8;
        let ghost q1 = q@;
        proof {
            assert forall|k: int| 0 <= k < pos implies #[trigger] q1[k] == q0[k] by { assert(q1[k] == qprev[k]); }
        }
        let sub = walk(t, q, pos + 1, rem - c, kind, fail);
        proof {
            assert forall|k: int| 0 <= k < pos implies #[trigger] q@[k] == q0[k] by { assert(q@[k] == q1[k]); }
        }
        if !sub {
            return false;
        }
        proof {
            assert forall|v: Seq<u8>| #[trigger] cand(v, q0, pos as int, rem as int, cap) && v[pos as int] < c + 1 implies leaf_ok(v, kind as int) by {
                if v[pos as int] == c {
                    assert(cand(v, q1, pos as int + 1, rem as int - c as int, cap));
                }
            }
        }
        c = c + 1;
    }
    proof {
        assert forall|v: Seq<u8>| #[trigger] cand(v, q0, pos as int, rem as int, cap) implies leaf_ok(v, kind as int) by {
            lemma_vsum_bounds(v, pos as int + 1, cap);
            assert(0 <= v[pos as int] <= cap);
            assert(cap * (13 - (pos as int + 1)) >= 0) by (nonlinear_arith) requires cap >= 0, pos < 13;
            assert(v[pos as int] <= rem);
            assert(v[pos as int] < c);
        }
    }
    true
}

pub fn check_kind(t: &Tbl, kind: u8, total: i64, fail: &mut Vec<u8>) -> (ok: bool)
    requires tbl_ok(t), kind <= 3, 0 <= total <= 7,
    ensures ok ==> forall|v: Seq<u8>| vec_ok(v, kind_cap(kind as int)) && vsum(v, 0) == total ==> #[trigger] leaf_ok(v, kind as int),
{
    let mut q: [u8; 13] = [0; 13];
    let ghost q0 = q@;
    let ok = walk(t, &mut q, 0, total, kind, fail);
    proof {
        if ok {
            assert forall|v: Seq<u8>| vec_ok(v, kind_cap(kind as int)) && vsum(v, 0) == total implies #[trigger] leaf_ok(v, kind as int) by {
                assert(cand(v, q0, 0, total as int, kind_cap(kind as int)));
            }
        }
    }
    ok
}

/// (tables, classes): true ==> the corresponding premise holds
pub fn check_all(fail: &mut Vec<u8>) -> (r: (bool, bool))
    ensures r.0 ==> tables_ok(), r.1 ==> classes_ok(),
{
    let t = build_tbl();
    let a = check_kind(&t, 0, 7, fail);
    let b5 = check_kind(&t, 1, 5, fail);
    let b6 = check_kind(&t, 1, 6, fail);
    let b7 = check_kind(&t, 1, 7, fail);
    let c = check_kind(&t, 2, 5, fail);
    let d = check_kind(&t, 3, 5, fail);
    proof {
        if a && b5 && b6 && b7 {
            assert forall|q: Seq<u8>| vec_ok(q, 4) && vsum(q, 0) == 7 implies #[trigger] rainbow_slot_ok(q) by {
                assert(leaf_ok(q, 0));
            }
            assert forall|f: Seq<u8>| vec_ok(f, 1) && 5 <= vsum(f, 0) <= 7 implies #[trigger] flush_slot_ok(f) by {
                assert(leaf_ok(f, 1));
            }
        }
        if c && d {
            assert forall|q: Seq<u8>| vec_ok(q, 4) && vsum(q, 0) == 5 implies #[trigger] class5_slot_ok(q, false) by {
                assert(leaf_ok(q, 2));
            }
            assert forall|f: Seq<u8>| vec_ok(f, 1) && vsum(f, 0) == 5 implies #[trigger] class5_slot_ok(f, true) by {
                assert(leaf_ok(f, 3));
            }
        }
    }
    (a && b5 && b6 && b7, c && d)
}
