// ===========================================================================
// Unit TOKEN (C05, C09, C10): meaning of range tokens.  Hand-written.
// ===========================================================================

// ---------- tokens ----------

pub open spec fn token_wf(t: HandRangeToken) -> bool {
    &&& match t.kind {
        HandRangeTokenKind::BottomClosedRankPairRange(rp) => match rp {
            RankPair::Pocket(_) => true,
            RankPair::Suited(h, k) => rank_code(h) < rank_code(k),
            RankPair::Ofsuit(h, k) => rank_code(h) < rank_code(k),
        },
        HandRangeTokenKind::DoubleClosedRankPairRange(rp, e) => match rp {
            RankPair::Pocket(a) => rank_code(a) <= rank_code(e),
            RankPair::Suited(h, k) => rank_code(h) < rank_code(k) && rank_code(k) <= rank_code(e),
            RankPair::Ofsuit(h, k) => rank_code(h) < rank_code(k) && rank_code(k) <= rank_code(e),
        },
        HandRangeTokenKind::SingleRankPair(rp) => match rp {
            RankPair::Pocket(_) => true,
            RankPair::Suited(h, k) => h != k,
            RankPair::Ofsuit(h, k) => h != k,
        },
        HandRangeTokenKind::SingleCardPair(p) => p.0 != p.1,
    }
}

pub open spec fn expand_ranks(kind: int, high: Rank, rs: Seq<Rank>, n: int) -> Seq<CardPair>
    decreases n
{
    if n <= 0 { Seq::empty() } else { expand_ranks(kind, high, rs, n - 1) + combos_seq(mk_rp(kind, high, rs[n - 1])) }
}

pub open spec fn span(kind: int, high: Rank, a: int, b: int) -> Seq<CardPair> {
    expand_ranks(kind, high, range_seq(a, b), range_seq(a, b).len() as int)
}

/// the combos a token expands to, in order (standard notation, DESIGN.md C05); each carries the token's weight
pub open spec fn expand_combos(t: HandRangeToken) -> Seq<CardPair> {
    match t.kind {
        HandRangeTokenKind::BottomClosedRankPairRange(rp) => match rp {
            // 'QQ+': every pair of queens or better
            RankPair::Pocket(x) => span(0, x, 0, rank_code(x)),
            // 'A9s+': ace-king down to ace-nine
            RankPair::Suited(h, k) => span(1, h, rank_code(h) + 1, rank_code(k)),
            RankPair::Ofsuit(h, k) => span(2, h, rank_code(h) + 1, rank_code(k)),
        },
        HandRangeTokenKind::DoubleClosedRankPairRange(rp, e) => match rp {
            // '88-66', 'AQs-A9s': inclusive spans
            RankPair::Pocket(a) => span(0, a, rank_code(a), rank_code(e)),
            RankPair::Suited(h, k) => span(1, h, rank_code(k), rank_code(e)),
            RankPair::Ofsuit(h, k) => span(2, h, rank_code(k), rank_code(e)),
        },
        HandRangeTokenKind::SingleRankPair(rp) => combos_seq(rp),
        HandRangeTokenKind::SingleCardPair(cp) => seq![cp],
    }
}

/// typing witness for the f32 field (Verus does not emit the typing fact for f32 struct fields by itself)
pub open spec fn tok_p(t: HandRangeToken) -> f32 { t.probability }

// ---------- C10 at value level: expansions hold pairs of two different cards ----------

pub proof fn lemma_expand_ranks_distinct(kind: int, high: Rank, rs: Seq<Rank>, n: int)
    requires 0 <= n <= rs.len(), 0 <= kind <= 2, forall|j: int| 0 <= j < n ==> kind == 0 || #[trigger] rs[j] != high,
    ensures forall|i: int| 0 <= i < expand_ranks(kind, high, rs, n).len() ==> two_cards(#[trigger] expand_ranks(kind, high, rs, n)[i]),
    decreases n
{
    if n > 0 {
        lemma_expand_ranks_distinct(kind, high, rs, n - 1);
        assert(kind == 0 || rs[n - 1] != high);
        lemma_combos_distinct(mk_rp(kind, high, rs[n - 1]));
        let prev = expand_ranks(kind, high, rs, n - 1);
        let cs = combos_seq(mk_rp(kind, high, rs[n - 1]));
        let all = expand_ranks(kind, high, rs, n);
        assert(all =~= prev + cs);
        assert forall|i: int| 0 <= i < all.len() implies two_cards(#[trigger] all[i]) by {
            if i < prev.len() { assert(all[i] == prev[i]); } else { assert(all[i] == cs[i - prev.len()]); }
        }
    }
}

/// every combo a well-formed token expands to consists of two different cards
pub proof fn lemma_token_distinct(t: HandRangeToken)
    requires token_wf(t),
    ensures forall|i: int| 0 <= i < expand_combos(t).len() ==> two_cards(#[trigger] expand_combos(t)[i]),
{
    match t.kind {
        HandRangeTokenKind::BottomClosedRankPairRange(rp) => match rp {
            RankPair::Pocket(x) => {
                lemma_rank_codes(x);
                let rs = range_seq(0, rank_code(x));
                lemma_expand_ranks_distinct(0, x, rs, rs.len() as int);
            }
            RankPair::Suited(h, k) => {
                lemma_rank_codes(h); lemma_rank_codes(k);
                let rs = range_seq(rank_code(h) + 1, rank_code(k));
                lemma_range_seq(rank_code(h) + 1, rank_code(k));
                lemma_expand_ranks_distinct(1, h, rs, rs.len() as int);
            }
            RankPair::Ofsuit(h, k) => {
                lemma_rank_codes(h); lemma_rank_codes(k);
                let rs = range_seq(rank_code(h) + 1, rank_code(k));
                lemma_range_seq(rank_code(h) + 1, rank_code(k));
                lemma_expand_ranks_distinct(2, h, rs, rs.len() as int);
            }
        },
        HandRangeTokenKind::DoubleClosedRankPairRange(rp, e) => match rp {
            RankPair::Pocket(a) => {
                lemma_rank_codes(a); lemma_rank_codes(e);
                let rs = range_seq(rank_code(a), rank_code(e));
                lemma_expand_ranks_distinct(0, a, rs, rs.len() as int);
            }
            RankPair::Suited(h, k) => {
                lemma_rank_codes(h); lemma_rank_codes(k); lemma_rank_codes(e);
                let rs = range_seq(rank_code(k), rank_code(e));
                lemma_range_seq(rank_code(k), rank_code(e));
                lemma_expand_ranks_distinct(1, h, rs, rs.len() as int);
            }
            RankPair::Ofsuit(h, k) => {
                lemma_rank_codes(h); lemma_rank_codes(k); lemma_rank_codes(e);
                let rs = range_seq(rank_code(k), rank_code(e));
                lemma_range_seq(rank_code(k), rank_code(e));
                lemma_expand_ranks_distinct(2, h, rs, rs.len() as int);
            }
        },
        HandRangeTokenKind::SingleRankPair(rp) => { lemma_combos_distinct(rp); }
        HandRangeTokenKind::SingleCardPair(cp) => {}
    }
}
