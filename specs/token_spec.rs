// ===========================================================================
// Unit TOKEN (C05, C09, C10): meaning of rank pairs and range tokens.  Hand-written.
// ===========================================================================

pub open spec fn rank_of_code(c: int) -> Rank {
    if c == 0 { Rank::Ace } else if c == 1 { Rank::King } else if c == 2 { Rank::Queen } else if c == 3 { Rank::Jack }
    else if c == 4 { Rank::Ten } else if c == 5 { Rank::Nine } else if c == 6 { Rank::Eight } else if c == 7 { Rank::Seven }
    else if c == 8 { Rank::Six } else if c == 9 { Rank::Five } else if c == 10 { Rank::Four } else if c == 11 { Rank::Trey }
    else { Rank::Deuce }
}

pub open spec fn suit_of_code(c: int) -> Suit {
    if c == 0 { Suit::Spade } else if c == 1 { Suit::Heart } else if c == 2 { Suit::Diamond } else { Suit::Club }
}

pub proof fn lemma_rank_codes(r: Rank)
    ensures 0 <= rank_code(r) <= 12, rank_of_code(rank_code(r)) == r,
{
}

/// the unordered pair {a, b} in canonical form (the card that orders first comes first)
pub open spec fn pair_of(a: Card, b: Card) -> CardPair {
    if card_code(a) > card_code(b) { CardPair(b, a) } else { CardPair(a, b) }
}

pub open spec fn mk_card(r: Rank, s: int) -> Card { Card(r, suit_of_code(s)) }

/// first-principles membership: the combos a rank pair denotes in standard notation
pub open spec fn in_rank_pair(cp: CardPair, rp: RankPair) -> bool {
    match rp {
        RankPair::Pocket(r) => exists|i: int, j: int| 0 <= i < j < 4 && cp == #[trigger] pair_of(mk_card(r, i), mk_card(r, j)),
        RankPair::Suited(h, k) => exists|i: int| 0 <= i < 4 && cp == #[trigger] pair_of(mk_card(h, i), mk_card(k, i)),
        RankPair::Ofsuit(h, k) => exists|i: int, j: int| 0 <= i < 4 && 0 <= j < 4 && i != j && cp == #[trigger] pair_of(mk_card(h, i), mk_card(k, j)),
    }
}

/// the combos of a rank pair in the order the code lists them
pub open spec fn combos_seq(rp: RankPair) -> Seq<CardPair> {
    match rp {
        RankPair::Pocket(r) => seq![
            pair_of(mk_card(r, 0), mk_card(r, 1)), pair_of(mk_card(r, 0), mk_card(r, 2)), pair_of(mk_card(r, 0), mk_card(r, 3)),
            pair_of(mk_card(r, 1), mk_card(r, 2)), pair_of(mk_card(r, 1), mk_card(r, 3)), pair_of(mk_card(r, 2), mk_card(r, 3)),
        ],
        RankPair::Suited(h, k) => seq![
            pair_of(mk_card(h, 0), mk_card(k, 0)), pair_of(mk_card(h, 1), mk_card(k, 1)),
            pair_of(mk_card(h, 2), mk_card(k, 2)), pair_of(mk_card(h, 3), mk_card(k, 3)),
        ],
        RankPair::Ofsuit(h, k) => seq![
            pair_of(mk_card(h, 0), mk_card(k, 1)), pair_of(mk_card(h, 0), mk_card(k, 2)), pair_of(mk_card(h, 0), mk_card(k, 3)),
            pair_of(mk_card(h, 1), mk_card(k, 0)), pair_of(mk_card(h, 1), mk_card(k, 2)), pair_of(mk_card(h, 1), mk_card(k, 3)),
            pair_of(mk_card(h, 2), mk_card(k, 0)), pair_of(mk_card(h, 2), mk_card(k, 1)), pair_of(mk_card(h, 2), mk_card(k, 3)),
            pair_of(mk_card(h, 3), mk_card(k, 0)), pair_of(mk_card(h, 3), mk_card(k, 1)), pair_of(mk_card(h, 3), mk_card(k, 2)),
        ],
    }
}

/// the listed combos are exactly the denoted ones (6 / 4 / 12 of them)
pub proof fn lemma_combos_meaning(rp: RankPair)
    ensures
        forall|cp: CardPair| combos_seq(rp).contains(cp) <==> in_rank_pair(cp, rp),
        combos_seq(rp).len() == (match rp { RankPair::Pocket(_) => 6int, RankPair::Suited(_, _) => 4int, RankPair::Ofsuit(_, _) => 12int }),
{
    let s = combos_seq(rp);
    assert forall|cp: CardPair| s.contains(cp) implies in_rank_pair(cp, rp) by {
        let k = choose|k: int| 0 <= k < s.len() && s[k] == cp;
        match rp {
            RankPair::Pocket(r) => {
                if k == 0 { assert(cp == pair_of(mk_card(r, 0), mk_card(r, 1))); }
                else if k == 1 { assert(cp == pair_of(mk_card(r, 0), mk_card(r, 2))); }
                else if k == 2 { assert(cp == pair_of(mk_card(r, 0), mk_card(r, 3))); }
                else if k == 3 { assert(cp == pair_of(mk_card(r, 1), mk_card(r, 2))); }
                else if k == 4 { assert(cp == pair_of(mk_card(r, 1), mk_card(r, 3))); }
                else { assert(cp == pair_of(mk_card(r, 2), mk_card(r, 3))); }
            }
            RankPair::Suited(h, kk) => {
                if k == 0 { assert(cp == pair_of(mk_card(h, 0), mk_card(kk, 0))); }
                else if k == 1 { assert(cp == pair_of(mk_card(h, 1), mk_card(kk, 1))); }
                else if k == 2 { assert(cp == pair_of(mk_card(h, 2), mk_card(kk, 2))); }
                else { assert(cp == pair_of(mk_card(h, 3), mk_card(kk, 3))); }
            }
            RankPair::Ofsuit(h, kk) => {
                let i = k / 3;
                let j0 = k % 3;
                let j = if j0 >= i { j0 + 1 } else { j0 };
                assert(0 <= i < 4 && 0 <= j < 4 && i != j);
                assert(cp == pair_of(mk_card(h, i), mk_card(kk, j)));
            }
        }
    }
    assert forall|cp: CardPair| in_rank_pair(cp, rp) implies s.contains(cp) by {
        match rp {
            RankPair::Pocket(r) => {
                let (i, j) = choose|i: int, j: int| 0 <= i < j < 4 && cp == #[trigger] pair_of(mk_card(r, i), mk_card(r, j));
                let k = if i == 0 { j - 1 } else if i == 1 { j + 1 } else { 5 };
                assert(s[k] == cp);
            }
            RankPair::Suited(h, kk) => {
                let i = choose|i: int| 0 <= i < 4 && cp == #[trigger] pair_of(mk_card(h, i), mk_card(kk, i));
                assert(s[i] == cp);
            }
            RankPair::Ofsuit(h, kk) => {
                let (i, j) = choose|i: int, j: int| 0 <= i < 4 && 0 <= j < 4 && i != j && cp == #[trigger] pair_of(mk_card(h, i), mk_card(kk, j));
                let k = 3 * i + (if j > i { j - 1 } else { j });
                assert(s[k] == cp);
            }
        }
    }
}

// ---------- tokens ----------

pub open spec fn token_wf(t: HandRangeToken) -> bool {
    &&& match t.kind {
        HandRangeTokenKind::BottomClosedRankPairRange(rp) => match rp {
            RankPair::Pocket(_) => true,
            RankPair::Suited(h, k) => rank_code(h) < rank_code(k),
            RankPair::Ofsuit(h, k) => rank_code(h) < rank_code(k),
        },
        HandRangeTokenKind::DoubleClosedRankPairRange(rp, e) => match rp {
            RankPair::Pocket(a) => rank_code(a) <= rank_code(e),
            RankPair::Suited(h, k) => rank_code(h) < rank_code(k) && rank_code(k) <= rank_code(e),
            RankPair::Ofsuit(h, k) => rank_code(h) < rank_code(k) && rank_code(k) <= rank_code(e),
        },
        HandRangeTokenKind::SingleRankPair(rp) => match rp {
            RankPair::Pocket(_) => true,
            RankPair::Suited(h, k) => h != k,
            RankPair::Ofsuit(h, k) => h != k,
        },
        HandRangeTokenKind::SingleCardPair(p) => p.0 != p.1,
    }
}

/// ranks with codes a..=b, strongest first
pub open spec fn range_seq(a: int, b: int) -> Seq<Rank> {
    Seq::new((if b >= a { b - a + 1 } else { 0int }) as nat, |i: int| rank_of_code(a + i))
}

pub open spec fn block(rp: RankPair, p: f32) -> Seq<(CardPair, f32)> {
    combos_seq(rp).map_values(|cp: CardPair| (cp, p))
}

/// kind of rank pair swept by a span: 0 pocket, 1 suited under `high`, 2 offsuit under `high`
pub open spec fn mk_rp(kind: int, high: Rank, r: Rank) -> RankPair {
    if kind == 0 { RankPair::Pocket(r) } else if kind == 1 { RankPair::Suited(high, r) } else { RankPair::Ofsuit(high, r) }
}

pub open spec fn expand_ranks(kind: int, high: Rank, rs: Seq<Rank>, n: int, p: f32) -> Seq<(CardPair, f32)>
    decreases n
{
    if n <= 0 { Seq::empty() } else { expand_ranks(kind, high, rs, n - 1, p) + block(mk_rp(kind, high, rs[n - 1]), p) }
}

pub open spec fn span(kind: int, high: Rank, a: int, b: int, p: f32) -> Seq<(CardPair, f32)> {
    expand_ranks(kind, high, range_seq(a, b), range_seq(a, b).len() as int, p)
}

/// what a token expands to (standard notation, DESIGN.md C05)
pub open spec fn expand_seq(t: HandRangeToken) -> Seq<(CardPair, f32)> {
    let p = t.probability;
    match t.kind {
        HandRangeTokenKind::BottomClosedRankPairRange(rp) => match rp {
            // 'QQ+': every pair of queens or better
            RankPair::Pocket(x) => span(0, x, 0, rank_code(x), p),
            // 'A9s+': ace-king down to ace-nine
            RankPair::Suited(h, k) => span(1, h, rank_code(h) + 1, rank_code(k), p),
            RankPair::Ofsuit(h, k) => span(2, h, rank_code(h) + 1, rank_code(k), p),
        },
        HandRangeTokenKind::DoubleClosedRankPairRange(rp, e) => match rp {
            // '88-66', 'AQs-A9s': inclusive spans
            RankPair::Pocket(a) => span(0, a, rank_code(a), rank_code(e), p),
            RankPair::Suited(h, k) => span(1, h, rank_code(k), rank_code(e), p),
            RankPair::Ofsuit(h, k) => span(2, h, rank_code(k), rank_code(e), p),
        },
        HandRangeTokenKind::SingleRankPair(rp) => block(rp, p),
        HandRangeTokenKind::SingleCardPair(cp) => seq![(cp, p)],
    }
}

/// C10 at value level: every combo a well-formed token expands to has two different cards and the token's weight
pub open spec fn entries_ok(s: Seq<(CardPair, f32)>, p: f32) -> bool {
    forall|i: int| 0 <= i < s.len() ==> (#[trigger] s[i]).1 == p && s[i].0.0 != s[i].0.1
}
