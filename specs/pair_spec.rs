// ===========================================================================
// Rank pairs and their combos (shared by units TOKEN and RANGE).  Hand-written.
// ===========================================================================

pub open spec fn rank_of_code(c: int) -> Rank {
    if c == 0 { Rank::Ace } else if c == 1 { Rank::King } else if c == 2 { Rank::Queen } else if c == 3 { Rank::Jack }
    else if c == 4 { Rank::Ten } else if c == 5 { Rank::Nine } else if c == 6 { Rank::Eight } else if c == 7 { Rank::Seven }
    else if c == 8 { Rank::Six } else if c == 9 { Rank::Five } else if c == 10 { Rank::Four } else if c == 11 { Rank::Trey }
    else { Rank::Deuce }
}

pub open spec fn suit_of_code(c: int) -> Suit {
    if c == 0 { Suit::Spade } else if c == 1 { Suit::Heart } else if c == 2 { Suit::Diamond } else { Suit::Club }
}

pub proof fn lemma_rank_codes(r: Rank)
    ensures 0 <= rank_code(r) <= 12, rank_of_code(rank_code(r)) == r,
{
}

/// the unordered pair {a, b} in canonical form (the card that orders first comes first)
pub open spec fn pair_of(a: Card, b: Card) -> CardPair {
    if card_code(a) > card_code(b) { CardPair(b, a) } else { CardPair(a, b) }
}

pub open spec fn mk_card(r: Rank, s: int) -> Card { Card(r, suit_of_code(s)) }

/// first-principles membership: the combos a rank pair denotes in standard notation
pub open spec fn in_rank_pair(cp: CardPair, rp: RankPair) -> bool {
    match rp {
        RankPair::Pocket(r) => exists|i: int, j: int| 0 <= i < j < 4 && cp == #[trigger] pair_of(mk_card(r, i), mk_card(r, j)),
        RankPair::Suited(h, k) => exists|i: int| 0 <= i < 4 && cp == #[trigger] pair_of(mk_card(h, i), mk_card(k, i)),
        RankPair::Ofsuit(h, k) => exists|i: int, j: int| 0 <= i < 4 && 0 <= j < 4 && i != j && cp == #[trigger] pair_of(mk_card(h, i), mk_card(k, j)),
    }
}

/// the combos of a rank pair in the order the code lists them
pub open spec fn combos_seq(rp: RankPair) -> Seq<CardPair> {
    match rp {
        RankPair::Pocket(r) => seq![
            pair_of(mk_card(r, 0), mk_card(r, 1)), pair_of(mk_card(r, 0), mk_card(r, 2)), pair_of(mk_card(r, 0), mk_card(r, 3)),
            pair_of(mk_card(r, 1), mk_card(r, 2)), pair_of(mk_card(r, 1), mk_card(r, 3)), pair_of(mk_card(r, 2), mk_card(r, 3)),
        ],
        RankPair::Suited(h, k) => seq![
            pair_of(mk_card(h, 0), mk_card(k, 0)), pair_of(mk_card(h, 1), mk_card(k, 1)),
            pair_of(mk_card(h, 2), mk_card(k, 2)), pair_of(mk_card(h, 3), mk_card(k, 3)),
        ],
        RankPair::Ofsuit(h, k) => seq![
            pair_of(mk_card(h, 0), mk_card(k, 1)), pair_of(mk_card(h, 0), mk_card(k, 2)), pair_of(mk_card(h, 0), mk_card(k, 3)),
            pair_of(mk_card(h, 1), mk_card(k, 0)), pair_of(mk_card(h, 1), mk_card(k, 2)), pair_of(mk_card(h, 1), mk_card(k, 3)),
            pair_of(mk_card(h, 2), mk_card(k, 0)), pair_of(mk_card(h, 2), mk_card(k, 1)), pair_of(mk_card(h, 2), mk_card(k, 3)),
            pair_of(mk_card(h, 3), mk_card(k, 0)), pair_of(mk_card(h, 3), mk_card(k, 1)), pair_of(mk_card(h, 3), mk_card(k, 2)),
        ],
    }
}

/// the listed combos are exactly the denoted ones (6 / 4 / 12 of them)
pub proof fn lemma_combos_pocket(r: Rank)
    ensures
        forall|cp: CardPair| combos_seq(RankPair::Pocket(r)).contains(cp) <==> in_rank_pair(cp, RankPair::Pocket(r)),
        combos_seq(RankPair::Pocket(r)).len() == 6,
{
    let rp = RankPair::Pocket(r);
    let s = combos_seq(rp);
    assert(s[0] == pair_of(mk_card(r, 0), mk_card(r, 1)) && s[1] == pair_of(mk_card(r, 0), mk_card(r, 2)) && s[2] == pair_of(mk_card(r, 0), mk_card(r, 3))
        && s[3] == pair_of(mk_card(r, 1), mk_card(r, 2)) && s[4] == pair_of(mk_card(r, 1), mk_card(r, 3)) && s[5] == pair_of(mk_card(r, 2), mk_card(r, 3)));
    assert forall|cp: CardPair| s.contains(cp) implies in_rank_pair(cp, rp) by {
        let k = choose|k: int| 0 <= k < s.len() && s[k] == cp;
        assert(0 <= k < 6);
    }
    assert forall|cp: CardPair| in_rank_pair(cp, rp) implies s.contains(cp) by {
        let (i, j) = choose|i: int, j: int| 0 <= i < j < 4 && cp == #[trigger] pair_of(mk_card(r, i), mk_card(r, j));
        let k = if i == 0 { j - 1 } else if i == 1 { j + 1 } else { 5int };
        assert(s[k] == cp);
    }
}

pub proof fn lemma_combos_suited(h: Rank, kk: Rank)
    ensures
        forall|cp: CardPair| combos_seq(RankPair::Suited(h, kk)).contains(cp) <==> in_rank_pair(cp, RankPair::Suited(h, kk)),
        combos_seq(RankPair::Suited(h, kk)).len() == 4,
{
    let rp = RankPair::Suited(h, kk);
    let s = combos_seq(rp);
    assert(s[0] == pair_of(mk_card(h, 0), mk_card(kk, 0)) && s[1] == pair_of(mk_card(h, 1), mk_card(kk, 1))
        && s[2] == pair_of(mk_card(h, 2), mk_card(kk, 2)) && s[3] == pair_of(mk_card(h, 3), mk_card(kk, 3)));
    assert forall|cp: CardPair| s.contains(cp) implies in_rank_pair(cp, rp) by {
        let k = choose|k: int| 0 <= k < s.len() && s[k] == cp;
        assert(0 <= k < 4);
    }
    assert forall|cp: CardPair| in_rank_pair(cp, rp) implies s.contains(cp) by {
        let i = choose|i: int| 0 <= i < 4 && cp == #[trigger] pair_of(mk_card(h, i), mk_card(kk, i));
        assert(s[i] == cp);
    }
}

pub open spec fn ofs_idx(i: int, j: int) -> int { 3 * i + (if j > i { j - 1 } else { j }) }

pub proof fn lemma_combos_ofsuit(h: Rank, kk: Rank)
    ensures
        forall|cp: CardPair| combos_seq(RankPair::Ofsuit(h, kk)).contains(cp) <==> in_rank_pair(cp, RankPair::Ofsuit(h, kk)),
        combos_seq(RankPair::Ofsuit(h, kk)).len() == 12,
{
    let rp = RankPair::Ofsuit(h, kk);
    let s = combos_seq(rp);
    assert(s[0] == pair_of(mk_card(h, 0), mk_card(kk, 1)) && s[1] == pair_of(mk_card(h, 0), mk_card(kk, 2)) && s[2] == pair_of(mk_card(h, 0), mk_card(kk, 3)));
    assert(s[3] == pair_of(mk_card(h, 1), mk_card(kk, 0)) && s[4] == pair_of(mk_card(h, 1), mk_card(kk, 2)) && s[5] == pair_of(mk_card(h, 1), mk_card(kk, 3)));
    assert(s[6] == pair_of(mk_card(h, 2), mk_card(kk, 0)) && s[7] == pair_of(mk_card(h, 2), mk_card(kk, 1)) && s[8] == pair_of(mk_card(h, 2), mk_card(kk, 3)));
    assert(s[9] == pair_of(mk_card(h, 3), mk_card(kk, 0)) && s[10] == pair_of(mk_card(h, 3), mk_card(kk, 1)) && s[11] == pair_of(mk_card(h, 3), mk_card(kk, 2)));
    assert forall|cp: CardPair| s.contains(cp) implies in_rank_pair(cp, rp) by {
        let k = choose|k: int| 0 <= k < s.len() && s[k] == cp;
        assert(0 <= k < 12);
    }
    assert forall|cp: CardPair| in_rank_pair(cp, rp) implies s.contains(cp) by {
        let (i, j) = choose|i: int, j: int| 0 <= i < 4 && 0 <= j < 4 && i != j && cp == #[trigger] pair_of(mk_card(h, i), mk_card(kk, j));
        let k = ofs_idx(i, j);
        assert(0 <= k < 12);
        assert(s[k] == cp);
    }
}

// ---------- C10 at value level: expansions hold pairs of two different cards ----------

pub open spec fn two_cards(cp: CardPair) -> bool { cp.0 != cp.1 }

pub proof fn lemma_combos_distinct(rp: RankPair)
    requires match rp { RankPair::Pocket(_) => true, RankPair::Suited(h, k) => h != k, RankPair::Ofsuit(h, k) => h != k },
    ensures forall|i: int| 0 <= i < combos_seq(rp).len() ==> two_cards(#[trigger] combos_seq(rp)[i]),
{
    match rp {
        RankPair::Pocket(r) => {}
        RankPair::Suited(h, k) => {}
        RankPair::Ofsuit(h, k) => {}
    }
}


/// ranks with codes a..=b, strongest first
pub open spec fn range_seq(a: int, b: int) -> Seq<Rank> {
    Seq::new((if b >= a { b - a + 1 } else { 0int }) as nat, |i: int| rank_of_code(a + i))
}


pub proof fn lemma_range_seq(a: int, b: int)
    requires 0 <= a, b <= 12,
    ensures forall|j: int| 0 <= j < range_seq(a, b).len() ==> a <= rank_code(#[trigger] range_seq(a, b)[j]) <= b && rank_code(range_seq(a, b)[j]) == a + j,
{
}


/// combos swept by a span of rank pairs of one kind (0 pocket, 1 suited under `high`, 2 offsuit under `high`)
pub open spec fn mk_rp(kind: int, high: Rank, r: Rank) -> RankPair {
    if kind == 0 { RankPair::Pocket(r) } else if kind == 1 { RankPair::Suited(high, r) } else { RankPair::Ofsuit(high, r) }
}

