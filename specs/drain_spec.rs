// ===========================================================================
// Unit ITER (C02, C04): composition of the stepper contract of next() over a whole run.
// Hand-written specification + a VERIFIED CLIENT (verif_drain / verif_run) that calls the real
// into_iter() and next() and is checked against their contracts only.  The client is proof
// scaffolding (it is not code of the crate): it turns "induction over calls" into a loop invariant.
// ===========================================================================

/// the legal cursors among a, succ(a), ..., succ^(n-1)(a), in visiting order
pub open spec fn orbit_legal(g: Game, a: Cur, n: nat) -> Seq<Cur>
    decreases n
{
    if n == 0 { Seq::<Cur>::empty() } else {
        let c = adv(a, lens_of(g.entries), (n - 1) as nat);
        if cur_ok(g, c) && legal(g, c) { orbit_legal(g, a, (n - 1) as nat).push(c) } else { orbit_legal(g, a, (n - 1) as nat) }
    }
}

pub proof fn lemma_adv_add(a: Cur, lens: Seq<int>, m: nat, k: nat)
    ensures adv(adv(a, lens, m), lens, k) == adv(a, lens, m + k),
    decreases k
{
    if k > 0 {
        lemma_adv_add(a, lens, m, (k - 1) as nat);
        assert(adv(a, lens, m + k) == succ(adv(a, lens, (m + k - 1) as nat), lens));
    }
}

/// a block of skipped cursors contributes nothing
pub proof fn lemma_orbit_skip(g: Game, a0: Cur, m: nat, k: nat, tt: int, rt: int)
    requires skipped(g, adv(a0, lens_of(g.entries), m), k, tt, rt),
    ensures orbit_legal(g, a0, m + k) == orbit_legal(g, a0, m),
    decreases k
{
    let lens = lens_of(g.entries);
    if k > 0 {
        let km = (k - 1) as nat;
        assert(skipped(g, adv(a0, lens, m), km, tt, rt));
        lemma_orbit_skip(g, a0, m, km, tt, rt);
        lemma_adv_add(a0, lens, m, km);
        let c = adv(adv(a0, lens, m), lens, km);
        assert(!legal(g, c));
        assert(adv(a0, lens, ((m + k) - 1) as nat) == c);
    }
}

pub proof fn lemma_sov_extend(g: Game, a0: Cur, m: nat, k: nat, tt: int, rt: int)
    requires skipped_or_visited(g, a0, m, tt, rt), skipped_or_visited(g, adv(a0, lens_of(g.entries), m), k, tt, rt),
    ensures skipped_or_visited(g, a0, m + k, tt, rt),
{
    let lens = lens_of(g.entries);
    assert forall|j: nat| j < m + k implies ({
        let c = #[trigger] adv(a0, lens_of(g.entries), j);
        !(c.t == tt && c.r == rt) && cur_ok(g, c)
    }) by {
        if j >= m {
            let d = (j - m) as nat;
            lemma_adv_add(a0, lens, m, d);
            let c = adv(adv(a0, lens, m), lens, d);
            assert(!(c.t == tt && c.r == rt) && cur_ok(g, c));
        }
    }
}

/// every element of orbit_legal is a legal, valid cursor of the orbit; ranks strictly increase along the list
/// (so no deal occurs twice) and stay inside [rank(a), rank(a) + n)
pub proof fn lemma_orbit_legal_sound(g: Game, a: Cur, n: nat, tt: int, rt: int)
    requires cur_ok(g, a) || (a.t == tt && a.r == rt), skipped_or_visited(g, a, n, tt, rt),
    ensures
        forall|i: int| 0 <= i < orbit_legal(g, a, n).len() ==> {
            let c = #[trigger] orbit_legal(g, a, n)[i];
            cur_ok(g, c) && legal(g, c) && !(c.t == tt && c.r == rt)
                && cur_rank(a, lens_of(g.entries)) <= cur_rank(c, lens_of(g.entries)) < cur_rank(a, lens_of(g.entries)) + n
        },
        forall|i: int, j: int| 0 <= i < j < orbit_legal(g, a, n).len() ==>
            cur_rank(#[trigger] orbit_legal(g, a, n)[i], lens_of(g.entries)) < cur_rank(#[trigger] orbit_legal(g, a, n)[j], lens_of(g.entries)),
    decreases n
{
    let lens = lens_of(g.entries);
    if n > 0 {
        let nm = (n - 1) as nat;
        assert(skipped_or_visited(g, a, nm, tt, rt));
        lemma_orbit_legal_sound(g, a, nm, tt, rt);
        lemma_adv_rank(a, lens, nm, g, tt, rt);
        let c = adv(a, lens, nm);
        assert(cur_ok(g, c) && !(c.t == tt && c.r == rt));
        let l0 = orbit_legal(g, a, nm);
        let l = orbit_legal(g, a, n);
        assert(l == if cur_ok(g, c) && legal(g, c) { l0.push(c) } else { l0 });
        assert forall|i: int| 0 <= i < l.len() implies ({
            let d = #[trigger] l[i];
            cur_ok(g, d) && legal(g, d) && !(d.t == tt && d.r == rt)
                && cur_rank(a, lens) <= cur_rank(d, lens) < cur_rank(a, lens) + n
        }) by {
            if i < l0.len() { assert(l[i] == l0[i]); } else { assert(l[i] == c); }
        }
        assert forall|i: int, j: int| 0 <= i < j < l.len() implies cur_rank(#[trigger] l[i], lens) < cur_rank(#[trigger] l[j], lens) by {
            assert(l[i] == l0[i]);
            if j < l0.len() { assert(l[j] == l0[j]); } else { assert(l[j] == c); }
        }
    }
}

/// ... and every legal valid cursor whose rank lies in [rank(a), rank(a) + n) is in the list
pub proof fn lemma_orbit_legal_complete(g: Game, a: Cur, n: nat, tt: int, rt: int, q: Cur)
    requires cur_ok(g, a) || (a.t == tt && a.r == rt), skipped_or_visited(g, a, n, tt, rt), cur_ok(g, q), legal(g, q),
        cur_rank(a, lens_of(g.entries)) <= cur_rank(q, lens_of(g.entries)) < cur_rank(a, lens_of(g.entries)) + n,
    ensures exists|i: int| 0 <= i < orbit_legal(g, a, n).len() && #[trigger] orbit_legal(g, a, n)[i] == q,
    decreases n
{
    let lens = lens_of(g.entries);
    if n > 0 {
        let nm = (n - 1) as nat;
        assert(skipped_or_visited(g, a, nm, tt, rt));
        let c = adv(a, lens, nm);
        if cur_rank(q, lens) == cur_rank(a, lens) + nm {
            lemma_orbit_covers(g, a, n, tt, rt, q);
            assert(q == c);
            let l = orbit_legal(g, a, n);
            assert(l == orbit_legal(g, a, nm).push(c));
            assert(l[l.len() - 1] == q);
        } else {
            lemma_orbit_legal_complete(g, a, nm, tt, rt, q);
            let i = choose|i: int| 0 <= i < orbit_legal(g, a, nm).len() && #[trigger] orbit_legal(g, a, nm)[i] == q;
            assert(orbit_legal(g, a, n)[i] == q);
        }
    }
}

/// rank of the first cursor at or after the scope end (tt, rt)
pub open spec fn end_rank(lens: Seq<int>, tt: int, rt: int) -> int {
    tr_index(tt, rt) * radix_prod(lens, lens.len() as int)
}

pub proof fn lemma_tr_index_le(t1: int, r1: int, t2: int, r2: int)
    requires pos_or_term(t1, r1), pos_or_term(t2, r2), tr_le(t1, r1, t2, r2),
    ensures tr_index(t1, r1) <= tr_index(t2, r2), 0 <= tr_index(t1, r1),
        !(t1 == t2 && r1 == r2) ==> tr_index(t1, r1) < tr_index(t2, r2),
{
    lemma_tri_mono(0, t1);
    if t1 < t2 {
        assert(tri(t1 + 1) == tri(t1) + (48 - t1));
        lemma_tri_mono(t1 + 1, t2);
    }
}

/// a valid cursor lies before the scope end iff its rank is below end_rank; ranks never exceed end_rank + prod
pub proof fn lemma_rank_vs_end(c: Cur, lens: Seq<int>, tt: int, rt: int)
    requires pos_or_term(c.t, c.r), pos_or_term(tt, rt), tr_le(c.t, c.r, tt, rt), idx_ok(c.idx, lens),
    ensures
        0 <= cur_rank(c, lens) < end_rank(lens, tt, rt) + radix_prod(lens, lens.len() as int),
        !(c.t == tt && c.r == rt) ==> cur_rank(c, lens) < end_rank(lens, tt, rt),
        (c.t == tt && c.r == rt) ==> cur_rank(c, lens) >= end_rank(lens, tt, rt),
{
    let n = lens.len() as int;
    let m = radix_prod(lens, n);
    lemma_radix_bound(c.idx, lens, n);
    lemma_tr_index_le(c.t, c.r, tt, rt);
    let x = tr_index(c.t, c.r);
    let y = tr_index(tt, rt);
    let v = radix_val(c.idx, lens, n);
    assert(0 <= x * m + v < y * m + m) by (nonlinear_arith) requires 0 <= x <= y, 0 <= v < m;
    if !(c.t == tt && c.r == rt) {
        assert(x * m + v < y * m) by (nonlinear_arith) requires 0 <= x < y, 0 <= v < m;
    }
}

/// with the odometer at zero (a freshly constructed iterator), "rank at least rank(a)" is "board position at or after a's"
pub proof fn lemma_rank_vs_start(a: Cur, q: Cur, lens: Seq<int>)
    requires pos_or_term(a.t, a.r), pos_ok(q.t, q.r), idx_ok(q.idx, lens), a.idx == zeros(lens.len() as int),
    ensures tr_le(a.t, a.r, q.t, q.r) <==> cur_rank(a, lens) <= cur_rank(q, lens),
{
    let n = lens.len() as int;
    let m = radix_prod(lens, n);
    lemma_radix_bound(q.idx, lens, n);
    lemma_radix_zeros(lens, n);
    let x = tr_index(a.t, a.r);
    let y = tr_index(q.t, q.r);
    let v = radix_val(q.idx, lens, n);
    if tr_le(a.t, a.r, q.t, q.r) {
        lemma_tr_index_le(a.t, a.r, q.t, q.r);
        assert(x * m <= y * m + v) by (nonlinear_arith) requires x <= y, 0 <= v < m;
    } else {
        lemma_tr_index_le(q.t, q.r, a.t, a.r);
        assert(y * m + v < x * m) by (nonlinear_arith) requires y < x, 0 <= v < m;
    }
}

/// what a complete run of next() calls has produced
pub open spec fn drained(it0: FlopExhaustiveEvaluatorIterator, it1: FlopExhaustiveEvaluatorIterator, out: Seq<Showdown>, n: nat) -> bool {
    let g = game_of(it0);
    let lens = lens_of(g.entries);
    let a0 = cur_of(it0);
    let tt = it0.turn_to as int;
    let rt = it0.river_to as int;
    let cs = orbit_legal(g, a0, n);
    &&& wf(it1) && same_game(it0, it1)
    &&& some_empty(g.entries) ==> out.len() == 0
    &&& !some_empty(g.entries) ==> {
        // n steps of the successor function inside the scope, then the scope end
        &&& skipped_or_visited(g, a0, n, tt, rt)
        &&& adv(a0, lens, n).t == tt && adv(a0, lens, n).r == rt
        &&& cur_of(it1) == adv(a0, lens, n)
        // the output is, in order, one showdown per legal cursor met on the way
        &&& out.len() == cs.len()
        &&& forall|i: int| 0 <= i < cs.len() ==> is_showdown_of(#[trigger] out[i], combos_at(g, cs[i]), board_at(g, cs[i]), prob_at(g, cs[i], g.entries.len() as int))
    }
}

/// VERIFIED CLIENT: call the real next() until it returns None
pub fn verif_drain(it: &mut FlopExhaustiveEvaluatorIterator) -> (res: (Vec<Showdown>, Ghost<nat>))
    requires wf(*old(it)), tables_ok(),
    ensures drained(*old(it), *final(it), res.0@, res.1@),
{
    let ghost it0 = *it;
    let ghost g = game_of(it0);
    let ghost lens = lens_of(g.entries);
    let ghost a0 = cur_of(it0);
    let ghost tt = it0.turn_to as int;
    let ghost rt = it0.river_to as int;
    let ghost mut n: nat = 0;
    let mut out: Vec<Showdown> = Vec::new();
    proof {
        assert(orbit_legal(g, a0, 0).len() == 0);
    }
    loop
        invariant_except_break
            wf(*it), same_game(it0, *it), tables_ok(),
            g == game_of(it0), lens == lens_of(g.entries), a0 == cur_of(it0), tt == it0.turn_to as int, rt == it0.river_to as int,
            game_of(*it) == g,
            cur_of(*it) == adv(a0, lens, n),
            skipped_or_visited(g, a0, n, tt, rt),
            out@.len() == orbit_legal(g, a0, n).len(),
            forall|i: int| 0 <= i < out@.len() ==> is_showdown_of(#[trigger] out@[i], combos_at(g, orbit_legal(g, a0, n)[i]), board_at(g, orbit_legal(g, a0, n)[i]), prob_at(g, orbit_legal(g, a0, n)[i], g.entries.len() as int)),
        ensures
            drained(it0, *it, out@, n),
        decreases
            end_rank(lens, tt, rt) + radix_prod(lens, lens.len() as int) - cur_rank(cur_of(*it), lens),
    {
        let ghost pre = *it;
        let ghost a = cur_of(pre);
        let r = it.next();
        proof {
            assert(same_game(it0, *it));
            assert(entries_of(*it) =~= entries_of(it0)) by {
                assert(it.player_entries == it0.player_entries);
            }
            assert(game_of(*it) == g);
        }
        match r {
            Some(sd) => {
                proof {
                    let k = choose|k: nat| {
                        let c = adv(a, lens, k);
                        &&& #[trigger] skipped(g, a, k, tt, rt)
                        &&& !(c.t == tt && c.r == rt) && cur_ok(g, c) && legal(g, c)
                        &&& is_showdown_of(sd, combos_at(g, c), board_at(g, c), prob_at(g, c, g.entries.len() as int))
                        &&& cur_of(*it) == succ(c, lens)
                    };
                    let c = adv(a, lens, k);
                    // a is a valid cursor before the scope end
                    assert(!(a.t == tt && a.r == rt) && cur_ok(g, a)) by {
                        if k == 0 { assert(a == c); } else { assert(adv(a, lens, 0) == a); }
                    }
                    assert(skipped_or_visited(g, a, k, tt, rt)) by {
                        assert forall|j: nat| j < k implies ({ let d = #[trigger] adv(a, lens_of(g.entries), j); !(d.t == tt && d.r == rt) && cur_ok(g, d) }) by {}
                    }
                    lemma_adv_add(a0, lens, n, k);
                    lemma_sov_extend(g, a0, n, k, tt, rt);
                    lemma_orbit_skip(g, a0, n, k, tt, rt);
                    let n1: nat = n + k + 1;
                    assert(adv(a0, lens, n1) == succ(adv(a0, lens, (n1 - 1) as nat), lens));
                    assert(skipped_or_visited(g, a0, n1, tt, rt)) by {
                        assert forall|j: nat| j < n1 implies ({ let d = #[trigger] adv(a0, lens_of(g.entries), j); !(d.t == tt && d.r == rt) && cur_ok(g, d) }) by {
                            if j == n + k { assert(adv(a0, lens, j) == c); }
                        }
                    }
                    assert(orbit_legal(g, a0, n1) == orbit_legal(g, a0, n + k).push(c));
                    // progress: the rank rises by k + 1 and stays below the bound
                    lemma_adv_rank(a, lens, k, g, tt, rt);
                    lemma_succ_rank(c, lens);
                    assert(idx_ok(cur_of(*it).idx, lens)) by {
                        let j = last_inc(c.idx, lens, c.idx.len() as int);
                        lemma_last_inc(c.idx, lens, c.idx.len() as int);
                        if j >= 0 { lemma_bump_ok(c.idx, lens, j); } else {
                            assert forall|i: int| 0 <= i < lens.len() implies 0 <= #[trigger] zeros(c.idx.len() as int)[i] < lens[i] by { assert(0 <= c.idx[i] < lens[i]); }
                        }
                    }
                    lemma_rank_vs_end(cur_of(*it), lens, tt, rt);
                    lemma_rank_vs_end(a, lens, tt, rt);
                    n = n1;
                }
                out.push(sd);
                proof {
                    let cs = orbit_legal(g, a0, n);
                    assert forall|i: int| 0 <= i < out@.len() implies is_showdown_of(#[trigger] out@[i], combos_at(g, cs[i]), board_at(g, cs[i]), prob_at(g, cs[i], g.entries.len() as int)) by {}
                }
            }
            None => {
                proof {
                    if some_empty(g.entries) {
                        // no valid cursor exists at all: nothing was ever pushed
                        assert(out@.len() == 0) by {
                            if out@.len() > 0 {
                                lemma_sov_or_empty(g, a0, n, tt, rt);
                            }
                        }
                    } else {
                        let k = choose|k: nat| {
                            let c = adv(a, lens, k);
                            &&& #[trigger] skipped(g, a, k, tt, rt)
                            &&& c.t == tt && c.r == rt
                            &&& cur_of(*it) == c
                        };
                        assert(skipped_or_visited(g, a, k, tt, rt)) by {
                            assert forall|j: nat| j < k implies ({ let d = #[trigger] adv(a, lens_of(g.entries), j); !(d.t == tt && d.r == rt) && cur_ok(g, d) }) by {}
                        }
                        lemma_adv_add(a0, lens, n, k);
                        lemma_sov_extend(g, a0, n, k, tt, rt);
                        lemma_orbit_skip(g, a0, n, k, tt, rt);
                        n = n + k;
                    }
                }
                break;
            }
        }
    }
    (out, Ghost(n))
}

/// with an empty range among the players there is no valid cursor, hence no legal deal in any orbit
pub proof fn lemma_sov_or_empty(g: Game, a: Cur, n: nat, tt: int, rt: int)
    requires some_empty(g.entries),
    ensures orbit_legal(g, a, n).len() == 0,
    decreases n
{
    if n > 0 {
        lemma_sov_or_empty(g, a, (n - 1) as nat, tt, rt);
        let c = adv(a, lens_of(g.entries), (n - 1) as nat);
        let i = choose|i: int| 0 <= i < g.entries.len() && (#[trigger] g.entries[i]).len() == 0;
        if cur_ok(g, c) {
            assert(lens_of(g.entries)[i] == 0);
            assert(0 <= c.idx[i] < lens_of(g.entries)[i]);
        }
    }
}

/// C02 + C04 as ONE statement about a whole run of an evaluator: the showdowns produced by draining the
/// iterator built from `e` are, in order and each exactly once, the legal deals whose board position lies in
/// [from, to) -- and nothing else
pub open spec fn run_is_enumeration(e: FlopExhaustiveEvaluator, it0: FlopExhaustiveEvaluatorIterator, out: Seq<Showdown>, cs: Seq<Cur>) -> bool {
    let g = game_of(it0);
    let lens = lens_of(g.entries);
    let np = g.entries.len() as int;
    &&& constructed_from(it0, e)
    &&& out.len() == cs.len()
    // nothing else: each output is the showdown of a legal, valid cursor inside the scope
    &&& forall|i: int| 0 <= i < cs.len() ==> {
        let c = #[trigger] cs[i];
        &&& cur_ok(g, c) && legal(g, c)
        &&& tr_le(e.turn_from as int, e.river_from as int, c.t, c.r) && tr_le(c.t, c.r, e.turn_to as int, e.river_to as int) && !(c.t == e.turn_to as int && c.r == e.river_to as int)
        &&& is_showdown_of(out[i], combos_at(g, c), board_at(g, c), prob_at(g, c, np))
    }
    // in enumeration order, never twice
    &&& forall|i: int, j: int| 0 <= i < j < cs.len() ==> cur_rank(#[trigger] cs[i], lens) < cur_rank(#[trigger] cs[j], lens)
    // every legal deal of the scope
    &&& forall|q: Cur| #![trigger cur_ok(g, q), legal(g, q)] cur_ok(g, q) && legal(g, q)
            && tr_le(e.turn_from as int, e.river_from as int, q.t, q.r) && tr_le(q.t, q.r, e.turn_to as int, e.river_to as int) && !(q.t == e.turn_to as int && q.r == e.river_to as int)
            ==> exists|i: int| 0 <= i < cs.len() && #[trigger] cs[i] == q
}

/// VERIFIED CLIENT: build the iterator with the real into_iter(), drain it with the real next()
pub fn verif_run(e: FlopExhaustiveEvaluator) -> (res: (Vec<Showdown>, Ghost<FlopExhaustiveEvaluatorIterator>, Ghost<Seq<Cur>>))
    requires evaluator_ok(e), e.players@.len() < 0x4000_0000, tables_ok(),
    ensures run_is_enumeration(e, res.1@, res.0@, res.2@),
{
    let ghost tf = e.turn_from as int;
    let ghost rf = e.river_from as int;
    let ghost tt = e.turn_to as int;
    let ghost rt = e.river_to as int;
    let mut it = e.into_iter();
    let ghost it0 = it;
    let (out, Ghost(n)) = verif_drain(&mut it);
    let ghost g = game_of(it0);
    let ghost lens = lens_of(g.entries);
    let ghost a0 = cur_of(it0);
    let ghost cs = if some_empty(g.entries) { Seq::<Cur>::empty() } else { orbit_legal(g, a0, n) };
    proof {
        assert(a0.idx =~= zeros(lens.len() as int));
        if some_empty(g.entries) {
            assert forall|q: Cur| cur_ok(g, q) implies false by {
                let i = choose|i: int| 0 <= i < g.entries.len() && (#[trigger] g.entries[i]).len() == 0;
                assert(lens[i] == 0);
                assert(0 <= q.idx[i] < lens[i]);
            }
        } else {
            assert(idx_ok(a0.idx, lens)) by {
                assert forall|i: int| 0 <= i < a0.idx.len() implies 0 <= #[trigger] a0.idx[i] < lens[i] by {
                    assert(!(g.entries[i].len() == 0));
                }
            }
            lemma_orbit_legal_sound(g, a0, n, tt, rt);
            let en = adv(a0, lens, n);
            lemma_adv_rank(a0, lens, n, g, tt, rt);
            // the run ends exactly at end_rank
            assert(cur_rank(en, lens) == end_rank(lens, tt, rt)) by {
                if n == 0 {
                    lemma_radix_zeros(lens, lens.len() as int);
                } else {
                    let p = adv(a0, lens, (n - 1) as nat);
                    assert(cur_ok(g, p) && !(p.t == tt && p.r == rt));
                    assert(en == succ(p, lens));
                    lemma_last_inc(p.idx, lens, p.idx.len() as int);
                    assert(en.idx =~= zeros(lens.len() as int));
                    lemma_radix_zeros(lens, lens.len() as int);
                }
            }
            assert forall|i: int| 0 <= i < cs.len() implies ({
                let c = #[trigger] cs[i];
                tr_le(tf, rf, c.t, c.r) && tr_le(c.t, c.r, tt, rt)
            }) by {
                let c = cs[i];
                lemma_rank_vs_start(a0, c, lens);
                lemma_rank_vs_end_conv(c, lens, tt, rt);
            }
            assert forall|q: Cur| #![trigger cur_ok(g, q), legal(g, q)] cur_ok(g, q) && legal(g, q)
                && tr_le(tf, rf, q.t, q.r) && tr_le(q.t, q.r, tt, rt) && !(q.t == tt && q.r == rt)
                implies exists|i: int| 0 <= i < cs.len() && #[trigger] cs[i] == q by {
                lemma_rank_vs_start(a0, q, lens);
                lemma_rank_vs_end(q, lens, tt, rt);
                lemma_orbit_legal_complete(g, a0, n, tt, rt, q);
            }
        }
    }
    (out, Ghost(it0), Ghost(cs))
}

/// a valid cursor whose rank is below end_rank lies before the scope end
pub proof fn lemma_rank_vs_end_conv(c: Cur, lens: Seq<int>, tt: int, rt: int)
    requires pos_ok(c.t, c.r), pos_or_term(tt, rt), idx_ok(c.idx, lens), cur_rank(c, lens) < end_rank(lens, tt, rt),
    ensures tr_le(c.t, c.r, tt, rt), !(c.t == tt && c.r == rt),
{
    if !tr_le(c.t, c.r, tt, rt) || (c.t == tt && c.r == rt) {
        let n = lens.len() as int;
        let m = radix_prod(lens, n);
        lemma_radix_bound(c.idx, lens, n);
        lemma_tr_index_le(tt, rt, c.t, c.r);
        let x = tr_index(c.t, c.r);
        let y = tr_index(tt, rt);
        let v = radix_val(c.idx, lens, n);
        assert(x * m + v >= y * m) by (nonlinear_arith) requires y <= x, 0 <= v < m;
    }
}

// ---------- C10: every yielded probability lies in [0, 1] ----------

/// weight in [0, 1] (floats are opaque to Verus)
pub uninterp spec fn unit_interval(p: f32) -> bool;

/// IMPORTED FACT, proved by Kani over all of binary32 (harness c10_f32_product_unit_interval, which is part of
/// the C10 check): 1.0 is in [0,1] and the f32 product of two weights in [0,1] is in [0,1]
pub axiom fn axiom_unit_interval_mul(a: f32, b: f32)
    requires unit_interval(a), unit_interval(b),
    ensures unit_interval(f32_mul_spec(a, b));

pub axiom fn axiom_unit_interval_one()
    ensures unit_interval(1.0f32);

/// the left fold of f32 products over the chosen combos' weights stays in [0, 1]
pub proof fn lemma_prob_unit(g: Game, c: Cur, n: int)
    requires 0 <= n <= g.entries.len(), idx_ok(c.idx, lens_of(g.entries)),
        forall|i: int, k: int| 0 <= i < g.entries.len() && 0 <= k < g.entries[i].len() ==> unit_interval((#[trigger] g.entries[i][k]).1),
    ensures unit_interval(prob_at(g, c, n)),
    decreases n
{
    if n <= 0 {
        axiom_unit_interval_one();
    } else {
        lemma_prob_unit(g, c, n - 1);
        assert(0 <= c.idx[n - 1] < lens_of(g.entries)[n - 1]);
        let w = g.entries[n - 1][c.idx[n - 1]];
        assert(unit_interval(w.1));
        axiom_unit_interval_mul(prob_at(g, c, n - 1), w.1);
    }
}

pub open spec fn weights_valid(e: FlopExhaustiveEvaluator) -> bool {
    forall|i: int, cp: CardPair| 0 <= i < e.players@.len() && #[trigger] e.players@[i].0@.contains_key(cp) ==> unit_interval(e.players@[i].0@[cp])
}

/// C10, consequence for showdowns: if every weight of every range is in [0,1], so is the probability of every
/// showdown of a run (and by lemma_legal_distinct no showdown contains a card twice)
pub proof fn lemma_run_probabilities(e: FlopExhaustiveEvaluator, it0: FlopExhaustiveEvaluatorIterator, out: Seq<Showdown>, cs: Seq<Cur>)
    requires run_is_enumeration(e, it0, out, cs), weights_valid(e),
    ensures forall|i: int| 0 <= i < out.len() ==> unit_interval((#[trigger] out[i]).probability),
{
    let g = game_of(it0);
    assert forall|i: int, k: int| 0 <= i < g.entries.len() && 0 <= k < g.entries[i].len() implies unit_interval((#[trigger] g.entries[i][k]).1) by {
        assert(is_listing(it0.player_entries@[i]@, e.players@[i].0@));
        assert(g.entries[i] == it0.player_entries@[i]@);
        let en = it0.player_entries@[i]@[k];
        assert(e.players@[i].0@.contains_key(en.0) && e.players@[i].0@[en.0] == en.1);
    }
    assert forall|i: int| 0 <= i < out.len() implies unit_interval((#[trigger] out[i]).probability) by {
        let c = cs[i];
        lemma_prob_unit(g, c, g.entries.len() as int);
    }
}
