// ===========================================================================
// Unit FMT (C09, C17 at token-list level): the token-building prefix of Display for HandRange.
// Hand-written.
// ===========================================================================

/// R16: `a != b` on f32 is the negation of IEEE `==`
#[verifier::external_body]
pub fn f32_ne(a: f32, b: f32) -> (r: bool)
    ensures r == !f32_eq_spec(a, b),
{
    a != b
}

// ---------- canonical token list of a range (C17 at token-list level) ----------

pub open spec fn wt(rps: Map<RankPair, f32>, rp: RankPair) -> Option<f32> {
    if rps.contains_key(rp) { Some(rps[rp]) } else { None }
}

/// the rank pair at rank code `c` of a row: kind 0 = pockets, 1 = suited under `high`, 2 = offsuit under `high`
pub open spec fn row_rp(kind: int, high: Rank, c: int) -> RankPair { mk_rp(kind, high, rank_of_code(c)) }


/// the one token written for the run of rank codes s..=e in a row that starts at code lo:
/// 'X+' when the run starts at the top of the row and is longer than one, a single rank pair, or 'X-Y'
pub open spec fn run_token(kind: int, high: Rank, lo: int, s: int, e: int, w: f32) -> HandRangeToken {
    if s == lo && e != lo {
        HandRangeToken { kind: HandRangeTokenKind::BottomClosedRankPairRange(row_rp(kind, high, e)), probability: w }
    } else if s == e {
        HandRangeToken { kind: HandRangeTokenKind::SingleRankPair(row_rp(kind, high, e)), probability: w }
    } else {
        HandRangeToken { kind: HandRangeTokenKind::DoubleClosedRankPairRange(row_rp(kind, high, s), rank_of_code(e)), probability: w }
    }
}

/// left-to-right scan of a row up to (excluding) rank code k: tokens of the closed maximal runs and the
/// start of the run that is still open.  A run is closed at the first code that is absent or whose
/// weight differs (f32 `!=`) from the weight at the run's start; a new run opens at every present code
/// that is not inside an open run.
pub open spec fn scan(rps: Map<RankPair, f32>, kind: int, high: Rank, lo: int, k: int) -> (Seq<HandRangeToken>, Option<int>)
    decreases k - lo
{
    if k <= lo { (Seq::empty(), None) } else {
        let prev = scan(rps, kind, high, lo, k - 1);
        let c = k - 1;
        let p = wt(rps, row_rp(kind, high, c));
        let closed = match prev.1 {
            Some(s) => {
                let ws = rps[row_rp(kind, high, s)];
                if p is None || !f32_eq_spec(p.unwrap(), ws) { (prev.0.push(run_token(kind, high, lo, s, c - 1, ws)), None::<int>) } else { prev }
            }
            None => prev,
        };
        if closed.1 is None && p is Some { (closed.0, Some(c)) } else { closed }
    }
}

pub open spec fn row_tokens(rps: Map<RankPair, f32>, kind: int, high: Rank, lo: int) -> Seq<HandRangeToken> {
    let sc = scan(rps, kind, high, lo, 13);
    match sc.1 {
        Some(s) => sc.0.push(run_token(kind, high, lo, s, 12, rps[row_rp(kind, high, s)])),
        None => sc.0,
    }
}

/// rows of the high cards with code < h: suited row then offsuit row, for each
pub open spec fn high_rows(rps: Map<RankPair, f32>, h: int) -> Seq<HandRangeToken>
    decreases h
{
    if h <= 0 { Seq::empty() } else {
        high_rows(rps, h - 1) + row_tokens(rps, 1, rank_of_code(h - 1), h) + row_tokens(rps, 2, rank_of_code(h - 1), h)
    }
}

/// leftover single combos in the fixed order high rank, kicker rank (not above), high suit, kicker suit;
/// index n = ((hr * 13 + kr) * 4 + hs) * 4 + ks
pub open spec fn orph_tok(orph: Map<CardPair, f32>, n: int) -> Seq<HandRangeToken> {
    let ks = n % 4;
    let hs = (n / 4) % 4;
    let kr = (n / 16) % 13;
    let hr = n / 208;
    let pair = pair_of(mk_card(rank_of_code(hr), hs), mk_card(rank_of_code(kr), ks));
    if kr >= hr && orph.contains_key(pair) {
        seq![HandRangeToken { kind: HandRangeTokenKind::SingleCardPair(pair), probability: orph[pair] }]
    } else { Seq::empty() }
}

pub open spec fn orph_prefix(orph: Map<CardPair, f32>, n: int) -> Seq<HandRangeToken>
    decreases n
{
    if n <= 0 { Seq::empty() } else { orph_prefix(orph, n - 1) + orph_tok(orph, n - 1) }
}

/// C17: the token list is this function of the two views -- pockets from aces down, then for each high
/// card its suited and then its offsuit kickers, then the leftover single combos
pub open spec fn canonical(rps: Map<RankPair, f32>, orph: Map<CardPair, f32>) -> Seq<HandRangeToken> {
    row_tokens(rps, 0, Rank::Ace, 0) + high_rows(rps, 12) + orph_prefix(orph, 2704)
}

/// the two views are functions of the contents (C12's contracts determine them)
pub proof fn lemma_rank_pairs_unique(r1: Map<RankPair, f32>, r2: Map<RankPair, f32>, m: RangeMap)
    requires is_rank_pairs_of(r1, m), is_rank_pairs_of(r2, m),
    ensures r1 == r2,
{
    assert forall|rp: RankPair| r1.dom().contains(rp) <==> r2.dom().contains(rp) by {
        assert(r1.contains_key(rp) <==> (valid_rp(rp) && complete(m, rp)));
        assert(r2.contains_key(rp) <==> (valid_rp(rp) && complete(m, rp)));
    }
    assert forall|rp: RankPair| r1.dom().contains(rp) implies r1[rp] == r2[rp] by {
        assert(r1.contains_key(rp) && r2.contains_key(rp));
    }
    assert(r1 =~= r2);
}

pub proof fn lemma_orphans_unique(o1: RangeMap, o2: RangeMap, r: Map<RankPair, f32>, m: RangeMap)
    requires is_orphans_of(o1, r, m), is_orphans_of(o2, r, m),
    ensures o1 == o2,
{
    assert forall|cp: CardPair| o1.dom().contains(cp) <==> o2.dom().contains(cp) by {
        assert(o1.contains_key(cp) <==> (m.contains_key(cp) && !covered(r, cp)));
        assert(o2.contains_key(cp) <==> (m.contains_key(cp) && !covered(r, cp)));
    }
    assert forall|cp: CardPair| o1.dom().contains(cp) implies o1[cp] == o2[cp] by {
        assert(o1.contains_key(cp) && o2.contains_key(cp));
    }
    assert(o1 =~= o2);
}

pub open spec fn rank_pairs_of(m: RangeMap) -> Map<RankPair, f32> { choose|r: Map<RankPair, f32>| is_rank_pairs_of(r, m) }

pub open spec fn orphans_of(m: RangeMap) -> RangeMap { choose|o: RangeMap| is_orphans_of(o, rank_pairs_of(m), m) }

/// the canonical token list as a function of the contents alone
pub open spec fn canon(m: RangeMap) -> Seq<HandRangeToken> { canonical(rank_pairs_of(m), orphans_of(m)) }

pub open spec fn skipped_idx(n: int) -> bool { (n / 16) % 13 < n / 208 }

pub proof fn lemma_orph_skip(orph: Map<CardPair, f32>, a: int, b: int)
    requires 0 <= a <= b, forall|n: int| a <= n < b ==> #[trigger] skipped_idx(n),
    ensures orph_prefix(orph, b) == orph_prefix(orph, a),
    decreases b - a
{
    if a < b {
        lemma_orph_skip(orph, a, b - 1);
        assert(skipped_idx(b - 1));
        assert(orph_tok(orph, b - 1) =~= Seq::empty());
        assert(orph_prefix(orph, b) =~= orph_prefix(orph, b - 1));
    }
}

pub open spec fn opt_code(o: Option<Rank>) -> Option<int> {
    match o { Some(r) => Some(rank_code(r)), None => None }
}

/// get() on the rank-pair map, as the scan sees it
pub open spec fn got(p: Option<&f32>, rps: Map<RankPair, f32>, rp: RankPair) -> bool {
    match p { Some(x) => rps.contains_key(rp) && *x == rps[rp], None => !rps.contains_key(rp) }
}

pub proof fn lemma_scan_step(rps: Map<RankPair, f32>, kind: int, high: Rank, lo: int, k: int)
    requires lo <= k,
    ensures scan(rps, kind, high, lo, k + 1) == ({
        let prev = scan(rps, kind, high, lo, k);
        let p = wt(rps, row_rp(kind, high, k));
        let closed = match prev.1 {
            Some(s) => {
                let ws = rps[row_rp(kind, high, s)];
                if p is None || !f32_eq_spec(p.unwrap(), ws) { (prev.0.push(run_token(kind, high, lo, s, k - 1, ws)), None::<int>) } else { prev }
            }
            None => prev,
        };
        if closed.1 is None && p is Some { (closed.0, Some(k)) } else { closed }
    }),
{
}

pub proof fn lemma_idx(hr: int, kr: int, hs: int, ks: int)
    requires 0 <= hr < 13, 0 <= kr < 13, 0 <= hs < 4, 0 <= ks < 4,
    ensures ({
        let n = ((hr * 13 + kr) * 4 + hs) * 4 + ks;
        n % 4 == ks && (n / 4) % 4 == hs && (n / 16) % 13 == kr && n / 208 == hr && n == hr * 208 + kr * 16 + hs * 4 + ks
    }),
{
}

pub proof fn lemma_skip_block(orph: Map<CardPair, f32>, hr: int)
    requires 0 <= hr < 13,
    ensures orph_prefix(orph, hr * 208 + hr * 16) == orph_prefix(orph, hr * 208),
{
    assert forall|n: int| hr * 208 <= n < hr * 208 + hr * 16 implies #[trigger] skipped_idx(n) by {
        let x = n - hr * 208;
        assert(0 <= x < 208);
        assert(n / 208 == hr);
        assert((n / 16) == hr * 13 + x / 16);
        assert((n / 16) % 13 == x / 16);
        assert(x / 16 < hr);
    }
    lemma_orph_skip(orph, hr * 208, hr * 208 + hr * 16);
}
