// ===========================================================================
// Specification vocabulary for unit EVAL (DESIGN.md section 5).  Hand-written.
// A *vector* q: Seq<u8> of length 13 gives the multiplicity of every rank code.
// ===========================================================================

// ---------- counting over card sequences ----------

pub open spec fn cnt_suit(cards: Seq<Card>, s: Suit) -> int
    decreases cards.len()
{
    if cards.len() == 0 { 0 } else {
        cnt_suit(cards.drop_last(), s) + if cards.last().1 == s { 1int } else { 0int }
    }
}

pub open spec fn cnt_rank(cards: Seq<Card>, r: int) -> int
    decreases cards.len()
{
    if cards.len() == 0 { 0 } else {
        cnt_rank(cards.drop_last(), r) + if rank_code(cards.last().0) == r { 1int } else { 0int }
    }
}

pub open spec fn cnt_card(cards: Seq<Card>, r: int, s: Suit) -> int
    decreases cards.len()
{
    if cards.len() == 0 { 0 } else {
        cnt_card(cards.drop_last(), r, s)
            + if rank_code(cards.last().0) == r && cards.last().1 == s { 1int } else { 0int }
    }
}

pub open spec fn mult(cards: Seq<Card>) -> Seq<u8> {
    Seq::new(13, |r: int| cnt_rank(cards, r) as u8)
}

pub open spec fn suit_mult(cards: Seq<Card>, s: Suit) -> Seq<u8> {
    Seq::new(13, |r: int| cnt_card(cards, r, s) as u8)
}


// ---------- vectors ----------

pub open spec fn vsum(q: Seq<u8>, from: int) -> int
    decreases 13 - from
{
    if from < 0 || from >= 13 { 0 } else { q[from] as int + vsum(q, from + 1) }
}

pub open spec fn vec_ok(q: Seq<u8>, cap: int) -> bool {
    q.len() == 13 && forall|i: int| 0 <= i < 13 ==> 0 <= #[trigger] q[i] <= cap
}

/// smallest index >= from holding value v, or 13
pub open spec fn first_eq(q: Seq<u8>, v: int, from: int) -> int
    decreases 13 - from
{
    if from < 0 || from >= 13 { 13 } else if q[from] as int == v { from } else { first_eq(q, v, from + 1) }
}

// ---------- binomials, lexicographic rank of an ascending tuple ----------

pub open spec fn binom(n: int, k: int) -> int
    decreases n
{
    if k < 0 { 0 } else if k == 0 { 1 } else if n <= 0 { 0 } else { binom(n - 1, k - 1) + binom(n - 1, k) }
}

/// sum over x in [lo, hi) of binom(n - x - 1, k - 1)
pub open spec fn skip(n: int, k: int, lo: int, hi: int) -> int
    decreases hi - lo
{
    if lo >= hi { 0 } else { binom(n - lo - 1, k - 1) + skip(n, k, lo + 1, hi) }
}

pub open spec fn lexrank2(a: int, b: int, n: int) -> int { skip(n, 2, 0, a) + skip(n, 1, a + 1, b) }

pub open spec fn lexrank3(a: int, b: int, c: int, n: int) -> int {
    skip(n, 3, 0, a) + skip(n, 2, a + 1, b) + skip(n, 1, b + 1, c)
}

pub open spec fn lexrank5(c0: int, c1: int, c2: int, c3: int, c4: int) -> int {
    skip(13, 5, 0, c0) + skip(13, 4, c0 + 1, c1) + skip(13, 3, c1 + 1, c2) + skip(13, 2, c2 + 1, c3)
        + skip(13, 1, c3 + 1, c4)
}

/// 1 if tuple a is lexicographically smaller than tuple c, else 0
pub open spec fn lt5(a0: int, a1: int, a2: int, a3: int, a4: int, c0: int, c1: int, c2: int, c3: int, c4: int) -> int {
    if a0 != c0 { if a0 < c0 { 1 } else { 0 } }
    else if a1 != c1 { if a1 < c1 { 1 } else { 0 } }
    else if a2 != c2 { if a2 < c2 { 1 } else { 0 } }
    else if a3 != c3 { if a3 < c3 { 1 } else { 0 } }
    else if a4 < c4 { 1 } else { 0 }
}

/// top-card code t of a straight (wheel: 9), or -1
pub open spec fn straight_top(c0: int, c1: int, c2: int, c3: int, c4: int) -> int {
    if c1 == c0 + 1 && c2 == c0 + 2 && c3 == c0 + 3 && c4 == c0 + 4 { c0 }
    else if c0 == 0 && c1 == 9 && c2 == 10 && c3 == 11 && c4 == 12 { 9 }
    else { -1 }
}

pub open spec fn straights_before(c0: int, c1: int, c2: int, c3: int, c4: int) -> int {
    lt5(0, 1, 2, 3, 4, c0, c1, c2, c3, c4) + lt5(0, 9, 10, 11, 12, c0, c1, c2, c3, c4)
    + lt5(1, 2, 3, 4, 5, c0, c1, c2, c3, c4) + lt5(2, 3, 4, 5, 6, c0, c1, c2, c3, c4)
    + lt5(3, 4, 5, 6, 7, c0, c1, c2, c3, c4) + lt5(4, 5, 6, 7, 8, c0, c1, c2, c3, c4)
    + lt5(5, 6, 7, 8, 9, c0, c1, c2, c3, c4) + lt5(6, 7, 8, 9, 10, c0, c1, c2, c3, c4)
    + lt5(7, 8, 9, 10, 11, c0, c1, c2, c3, c4) + lt5(8, 9, 10, 11, 12, c0, c1, c2, c3, c4)
}

/// index of a kicker code k once the (distinct) codes a and b are taken out of 0..13; b = 13 when unused
pub open spec fn reidx(k: int, a: int, b: int) -> int {
    k - (if a < k { 1int } else { 0int }) - (if b < k { 1int } else { 0int })
}

// ---------- the standard class of a five-card hand given as a vector ----------
// (flush == true: the five cards share a suit, so the vector is 0/1-valued)

pub open spec fn class5(q: Seq<u8>, flush: bool) -> int {
    let four = first_eq(q, 4, 0);
    let three = first_eq(q, 3, 0);
    let p1 = first_eq(q, 2, 0);
    let p2 = first_eq(q, 2, p1 + 1);
    let s1 = first_eq(q, 1, 0);
    let s2 = first_eq(q, 1, s1 + 1);
    let s3 = first_eq(q, 1, s2 + 1);
    let s4 = first_eq(q, 1, s3 + 1);
    let s5 = first_eq(q, 1, s4 + 1);
    if four < 13 {
        11 + 12 * four + reidx(s1, four, 13)
    } else if three < 13 && p1 < 13 {
        167 + 12 * three + reidx(p1, three, 13)
    } else if three < 13 {
        1610 + 66 * three + lexrank2(reidx(s1, three, 13), reidx(s2, three, 13), 12)
    } else if p1 < 13 && p2 < 13 {
        2468 + 11 * lexrank2(p1, p2, 13) + reidx(s1, p1, p2)
    } else if p1 < 13 {
        3326 + 220 * p1 + lexrank3(reidx(s1, p1, 13), reidx(s2, p1, 13), reidx(s3, p1, 13), 12)
    } else {
        let t = straight_top(s1, s2, s3, s4, s5);
        let hc = lexrank5(s1, s2, s3, s4, s5) - straights_before(s1, s2, s3, s4, s5);
        if t >= 0 {
            if flush { 1 + t } else { 1600 + t }
        } else {
            if flush { 323 + hc } else { 6186 + hc }
        }
    }
}

/// first-principles category of a five-card vector: 8 = straight flush ... 0 = high card
pub open spec fn pattern_cat(q: Seq<u8>, flush: bool) -> int {
    let s1 = first_eq(q, 1, 0);
    let s2 = first_eq(q, 1, s1 + 1);
    let s3 = first_eq(q, 1, s2 + 1);
    let s4 = first_eq(q, 1, s3 + 1);
    let s5 = first_eq(q, 1, s4 + 1);
    let straight = s5 < 13 && straight_top(s1, s2, s3, s4, s5) >= 0;
    if first_eq(q, 4, 0) < 13 { 7 }
    else if first_eq(q, 3, 0) < 13 && first_eq(q, 2, 0) < 13 { 6 }
    else if first_eq(q, 3, 0) < 13 { 3 }
    else if first_eq(q, 2, first_eq(q, 2, 0) + 1) < 13 { 2 }
    else if first_eq(q, 2, 0) < 13 { 1 }
    else if straight && flush { 8 }
    else if flush { 5 }
    else if straight { 4 }
    else { 0 }
}

/// category of a class number (the interval table of the standard numbering)
pub open spec fn category(idx: int) -> int {
    if 1 <= idx <= 10 { 8 } else if idx <= 166 { 7 } else if idx <= 322 { 6 } else if idx <= 1599 { 5 }
    else if idx <= 1609 { 4 } else if idx <= 2467 { 3 } else if idx <= 3325 { 2 } else if idx <= 6185 { 1 }
    else { 0 }
}

pub open spec fn vdec(q: Seq<u8>, a: int) -> Seq<u8> { q.update(a, (q[a] - 1) as u8) }

pub open spec fn imin(a: int, b: int) -> int { if a <= b { a } else { b } }

pub spec const NOCLASS: int = 9999;

/// best (smallest) class among the five-card sub-hands of a vector with 5..7 cards:
/// discard one card at a time, every possible way.
pub open spec fn best_of(q: Seq<u8>, flush: bool, n: int) -> int
    decreases n, 14int
{
    if n <= 5 { class5(q, flush) } else { best_drop(q, flush, n, 0) }
}

/// min over a in [from, 13) with q[a] > 0 of best_of(q - e_a, n - 1)
pub open spec fn best_drop(q: Seq<u8>, flush: bool, n: int, from: int) -> int
    decreases n, 13 - from
{
    if n <= 5 || from < 0 || from >= 13 { NOCLASS } else {
        let rest = best_drop(q, flush, n, from + 1);
        if q[from] > 0 { imin(best_of(vdec(q, from), flush, n - 1), rest) } else { rest }
    }
}

// ---------- the class of a seven-card hand ----------

pub open spec fn class7(cards: Seq<Card>) -> int {
    if cnt_suit(cards, Suit::Spade) >= 5 { best_of(suit_mult(cards, Suit::Spade), true, cnt_suit(cards, Suit::Spade)) }
    else if cnt_suit(cards, Suit::Heart) >= 5 { best_of(suit_mult(cards, Suit::Heart), true, cnt_suit(cards, Suit::Heart)) }
    else if cnt_suit(cards, Suit::Diamond) >= 5 { best_of(suit_mult(cards, Suit::Diamond), true, cnt_suit(cards, Suit::Diamond)) }
    else if cnt_suit(cards, Suit::Club) >= 5 { best_of(suit_mult(cards, Suit::Club), true, cnt_suit(cards, Suit::Club)) }
    else { best_of(mult(cards), false, 7) }
}

// ---------- hashes ----------

pub open spec fn pow2(n: int) -> int decreases n { if n <= 0 { 1 } else { 2 * pow2(n - 1) } }

/// value of a 0/1 vector as a bit mask: rank code r is bit 12 - r
pub open spec fn mask_val(f: Seq<u8>, from: int) -> int
    decreases 13 - from
{
    if from < 0 || from >= 13 { 0 } else { (f[from] as int) * pow2(12 - from) + mask_val(f, from + 1) }
}
