// ===========================================================================
// Card / rank / suit codes shared by all units (DESIGN.md section 5).
// Hand-written.  Rank code: ace = 0 ... deuce = 12; smaller class = stronger.
// ===========================================================================

pub open spec fn rank_code(r: Rank) -> int {
    match r {
        Rank::Ace => 0, Rank::King => 1, Rank::Queen => 2, Rank::Jack => 3, Rank::Ten => 4,
        Rank::Nine => 5, Rank::Eight => 6, Rank::Seven => 7, Rank::Six => 8, Rank::Five => 9,
        Rank::Four => 10, Rank::Trey => 11, Rank::Deuce => 12,
    }
}

pub open spec fn suit_code(s: Suit) -> int {
    match s { Suit::Spade => 0, Suit::Heart => 1, Suit::Diamond => 2, Suit::Club => 3 }
}

pub open spec fn card_code(c: Card) -> int { 4 * rank_code(c.0) + suit_code(c.1) }


pub open spec fn distinct_cards(cards: Seq<Card>) -> bool {
    forall|i: int, j: int| 0 <= i < j < cards.len() ==> cards[i] != cards[j]
}
