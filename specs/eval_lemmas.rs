// ===========================================================================
// Unit EVAL: lemmas connecting card sequences to vectors (hand-written proofs).
// ===========================================================================

pub open spec fn suit_of(j: int) -> Suit {
    if j == 0 { Suit::Spade } else if j == 1 { Suit::Heart } else if j == 2 { Suit::Diamond } else { Suit::Club }
}

pub proof fn lemma_take_step<T>(s: Seq<T>, i: int)
    requires 0 <= i < s.len(),
    ensures s.take(i + 1).drop_last() == s.take(i), s.take(i + 1).last() == s[i], s.take(i + 1).len() == i + 1,
{
    assert(s.take(i + 1).drop_last() =~= s.take(i));
}

pub proof fn lemma_take_all<T>(s: Seq<T>)
    ensures s.take(s.len() as int) == s,
{
    assert(s.take(s.len() as int) =~= s);
}

pub proof fn lemma_cnt_suit_total(cards: Seq<Card>)
    ensures cnt_suit(cards, Suit::Spade) + cnt_suit(cards, Suit::Heart) + cnt_suit(cards, Suit::Diamond)
            + cnt_suit(cards, Suit::Club) == cards.len(),
        cnt_suit(cards, Suit::Spade) >= 0, cnt_suit(cards, Suit::Heart) >= 0,
        cnt_suit(cards, Suit::Diamond) >= 0, cnt_suit(cards, Suit::Club) >= 0,
    decreases cards.len()
{
    if cards.len() > 0 { lemma_cnt_suit_total(cards.drop_last()); }
}

pub proof fn lemma_cnt_suit_prefix(cards: Seq<Card>, i: int, s: Suit)
    requires 0 <= i <= cards.len(),
    ensures 0 <= cnt_suit(cards.take(i), s) <= cnt_suit(cards, s),
    decreases cards.len() - i
{
    if i < cards.len() {
        lemma_take_step(cards, i);
        lemma_cnt_suit_prefix(cards, i + 1, s);
        lemma_cnt_nonneg(cards.take(i), 0, s);
    } else {
        lemma_take_all(cards);
        lemma_cnt_nonneg(cards, 0, s);
    }
}

pub proof fn lemma_cnt_nonneg(cards: Seq<Card>, r: int, s: Suit)
    ensures 0 <= cnt_suit(cards, s) <= cards.len(), 0 <= cnt_rank(cards, r) <= cards.len(),
        0 <= cnt_card(cards, r, s) <= cards.len(),
    decreases cards.len()
{
    if cards.len() > 0 { lemma_cnt_nonneg(cards.drop_last(), r, s); }
}

/// a card that occurs in a duplicate-free sequence occurs once
pub proof fn lemma_cnt_card_distinct(cards: Seq<Card>, r: int, s: Suit)
    requires distinct_cards(cards),
    ensures 0 <= cnt_card(cards, r, s) <= 1,
        cnt_card(cards, r, s) == 1 ==> exists|i: int| 0 <= i < cards.len() && rank_code(cards[i].0) == r && cards[i].1 == s,
    decreases cards.len()
{
    if cards.len() > 0 {
        let p = cards.drop_last();
        assert(distinct_cards(p)) by {
            assert forall|i: int, j: int| 0 <= i < j < p.len() implies p[i] != p[j] by {
                assert(p[i] == cards[i] && p[j] == cards[j]);
            }
        }
        lemma_cnt_card_distinct(p, r, s);
        let c = cards.last();
        if rank_code(c.0) == r && c.1 == s {
            if cnt_card(p, r, s) == 1 {
                let i = choose|i: int| 0 <= i < p.len() && rank_code(p[i].0) == r && p[i].1 == s;
                assert(p[i] == cards[i]);
                lemma_rank_code_inj(cards[i].0, c.0);
                assert(cards[i] == cards[cards.len() - 1]);
                assert(false);
            }
            assert(rank_code(cards[cards.len() - 1].0) == r);
        } else if cnt_card(p, r, s) == 1 {
            let i = choose|i: int| 0 <= i < p.len() && rank_code(p[i].0) == r && p[i].1 == s;
            assert(p[i] == cards[i]);
        }
    }
}

pub proof fn lemma_rank_code_inj(a: Rank, b: Rank)
    ensures rank_code(a) == rank_code(b) ==> a == b, 0 <= rank_code(a) <= 12,
{
}

/// the rank count is the sum over the four suits
pub proof fn lemma_cnt_rank_split(cards: Seq<Card>, r: int)
    ensures cnt_rank(cards, r) == cnt_card(cards, r, Suit::Spade) + cnt_card(cards, r, Suit::Heart)
            + cnt_card(cards, r, Suit::Diamond) + cnt_card(cards, r, Suit::Club),
    decreases cards.len()
{
    if cards.len() > 0 { lemma_cnt_rank_split(cards.drop_last(), r); }
}

pub proof fn lemma_mult_ok(cards: Seq<Card>)
    requires distinct_cards(cards), cards.len() <= 7,
    ensures vec_ok(mult(cards), 4),
{
    assert forall|r: int| 0 <= r < 13 implies 0 <= #[trigger] mult(cards)[r] <= 4 by {
        lemma_cnt_rank_split(cards, r);
        lemma_cnt_card_distinct(cards, r, Suit::Spade);
        lemma_cnt_card_distinct(cards, r, Suit::Heart);
        lemma_cnt_card_distinct(cards, r, Suit::Diamond);
        lemma_cnt_card_distinct(cards, r, Suit::Club);
    }
}

pub proof fn lemma_suit_mult_ok(cards: Seq<Card>, s: Suit)
    requires distinct_cards(cards), cards.len() <= 7,
    ensures vec_ok(suit_mult(cards, s), 1),
{
    assert forall|r: int| 0 <= r < 13 implies 0 <= #[trigger] suit_mult(cards, s)[r] <= 1 by {
        lemma_cnt_card_distinct(cards, r, s);
    }
}

/// sum over codes [from, 13) of the per-code counts
pub open spec fn rsum(cards: Seq<Card>, from: int) -> int
    decreases 13 - from
{
    if from < 0 || from >= 13 { 0 } else { cnt_rank(cards, from) + rsum(cards, from + 1) }
}

pub open spec fn csum(cards: Seq<Card>, s: Suit, from: int) -> int
    decreases 13 - from
{
    if from < 0 || from >= 13 { 0 } else { cnt_card(cards, from, s) + csum(cards, s, from + 1) }
}

pub proof fn lemma_rsum_step(cards: Seq<Card>, from: int)
    requires cards.len() > 0, 0 <= from <= 13,
    ensures rsum(cards, from) == rsum(cards.drop_last(), from) + if from <= rank_code(cards.last().0) { 1int } else { 0int },
    decreases 13 - from
{
    lemma_rank_code_inj(cards.last().0, cards.last().0);
    if from < 13 { lemma_rsum_step(cards, from + 1); }
}

pub proof fn lemma_rsum_total(cards: Seq<Card>)
    ensures rsum(cards, 0) == cards.len(),
    decreases cards.len()
{
    if cards.len() > 0 {
        lemma_rsum_total(cards.drop_last());
        lemma_rsum_step(cards, 0);
        lemma_rank_code_inj(cards.last().0, cards.last().0);
    } else {
        lemma_rsum_zero(cards, 0);
    }
}

pub proof fn lemma_rsum_zero(cards: Seq<Card>, from: int)
    requires cards.len() == 0, 0 <= from <= 13,
    ensures rsum(cards, from) == 0, forall|s: Suit| csum(cards, s, from) == 0,
    decreases 13 - from
{
    if from < 13 { lemma_rsum_zero(cards, from + 1); }
    assert forall|s: Suit| csum(cards, s, from) == 0 by {
        lemma_csum_zero(cards, s, from);
    }
}

pub proof fn lemma_csum_zero(cards: Seq<Card>, s: Suit, from: int)
    requires cards.len() == 0, 0 <= from <= 13,
    ensures csum(cards, s, from) == 0,
    decreases 13 - from
{
    if from < 13 { lemma_csum_zero(cards, s, from + 1); }
}

pub proof fn lemma_csum_step(cards: Seq<Card>, s: Suit, from: int)
    requires cards.len() > 0, 0 <= from <= 13,
    ensures csum(cards, s, from) == csum(cards.drop_last(), s, from)
        + if cards.last().1 == s && from <= rank_code(cards.last().0) { 1int } else { 0int },
    decreases 13 - from
{
    lemma_rank_code_inj(cards.last().0, cards.last().0);
    if from < 13 { lemma_csum_step(cards, s, from + 1); }
}

pub proof fn lemma_csum_total(cards: Seq<Card>, s: Suit)
    ensures csum(cards, s, 0) == cnt_suit(cards, s),
    decreases cards.len()
{
    if cards.len() > 0 {
        lemma_csum_total(cards.drop_last(), s);
        lemma_csum_step(cards, s, 0);
        lemma_rank_code_inj(cards.last().0, cards.last().0);
    } else {
        lemma_csum_zero(cards, s, 0);
    }
}

pub proof fn lemma_vsum_mult(cards: Seq<Card>, from: int)
    requires cards.len() <= 255, 0 <= from <= 13,
    ensures vsum(mult(cards), from) == rsum(cards, from),
    decreases 13 - from
{
    if from < 13 {
        lemma_vsum_mult(cards, from + 1);
        lemma_cnt_nonneg(cards, from, Suit::Spade);
    }
}

pub proof fn lemma_vsum_suit_mult(cards: Seq<Card>, s: Suit, from: int)
    requires cards.len() <= 255, 0 <= from <= 13,
    ensures vsum(suit_mult(cards, s), from) == csum(cards, s, from),
    decreases 13 - from
{
    if from < 13 {
        lemma_vsum_suit_mult(cards, s, from + 1);
        lemma_cnt_nonneg(cards, from, s);
    }
}

/// what hash_for_flush's loop adds up
pub open spec fn mask_sum(cards: Seq<Card>, s: Suit) -> int
    decreases cards.len()
{
    if cards.len() == 0 { 0 } else {
        mask_sum(cards.drop_last(), s) + if cards.last().1 == s { pow2(12 - rank_code(cards.last().0)) } else { 0int }
    }
}

/// sum over codes [from, 13) of count * 2^(12 - code)
pub open spec fn msum(cards: Seq<Card>, s: Suit, from: int) -> int
    decreases 13 - from
{
    if from < 0 || from >= 13 { 0 } else { cnt_card(cards, from, s) * pow2(12 - from) + msum(cards, s, from + 1) }
}

pub proof fn lemma_msum_step(cards: Seq<Card>, s: Suit, from: int)
    requires cards.len() > 0, 0 <= from <= 13,
    ensures msum(cards, s, from) == msum(cards.drop_last(), s, from)
        + if cards.last().1 == s && from <= rank_code(cards.last().0) { pow2(12 - rank_code(cards.last().0)) } else { 0int },
    decreases 13 - from
{
    lemma_rank_code_inj(cards.last().0, cards.last().0);
    if from < 13 {
        lemma_msum_step(cards, s, from + 1);
        let a = cnt_card(cards.drop_last(), from, s);
        let p = pow2(12 - from);
        assert((a + 1) * p == a * p + p) by (nonlinear_arith);
    }
}

pub proof fn lemma_msum_empty(cards: Seq<Card>, s: Suit, from: int)
    requires cards.len() == 0, 0 <= from <= 13,
    ensures msum(cards, s, from) == 0,
    decreases 13 - from
{
    if from < 13 { lemma_msum_empty(cards, s, from + 1); }
}

pub proof fn lemma_mask_sum(cards: Seq<Card>, s: Suit)
    ensures mask_sum(cards, s) == msum(cards, s, 0),
    decreases cards.len()
{
    if cards.len() > 0 {
        lemma_mask_sum(cards.drop_last(), s);
        lemma_msum_step(cards, s, 0);
        lemma_rank_code_inj(cards.last().0, cards.last().0);
    } else {
        lemma_msum_empty(cards, s, 0);
    }
}

pub proof fn lemma_mask_val_suit_mult(cards: Seq<Card>, s: Suit, from: int)
    requires cards.len() <= 255, 0 <= from <= 13,
    ensures mask_val(suit_mult(cards, s), from) == msum(cards, s, from),
    decreases 13 - from
{
    if from < 13 {
        lemma_mask_val_suit_mult(cards, s, from + 1);
        lemma_cnt_nonneg(cards, from, s);
    }
}

pub proof fn lemma_pow2_table()
    ensures pow2(0) == 1, pow2(1) == 2, pow2(2) == 4, pow2(3) == 8, pow2(4) == 16, pow2(5) == 32, pow2(6) == 64,
        pow2(7) == 128, pow2(8) == 256, pow2(9) == 512, pow2(10) == 1024, pow2(11) == 2048, pow2(12) == 4096,
{
    assert(pow2(12) == 4096) by (compute);
    assert(pow2(11) == 2048) by (compute);
    assert(pow2(10) == 1024) by (compute);
    assert(pow2(9) == 512) by (compute);
    assert(pow2(8) == 256) by (compute);
    assert(pow2(7) == 128) by (compute);
    assert(pow2(6) == 64) by (compute);
    assert(pow2(5) == 32) by (compute);
    assert(pow2(4) == 16) by (compute);
    assert(pow2(3) == 8) by (compute);
    assert(pow2(2) == 4) by (compute);
    assert(pow2(1) == 2) by (compute);
    assert(pow2(0) == 1) by (compute);
}

pub proof fn lemma_mask_sum_bound(cards: Seq<Card>, s: Suit)
    ensures 0 <= mask_sum(cards, s) <= 4096 * cards.len(),
    decreases cards.len()
{
    if cards.len() > 0 {
        lemma_mask_sum_bound(cards.drop_last(), s);
        lemma_rank_code_inj(cards.last().0, cards.last().0);
        lemma_pow2_mono(12 - rank_code(cards.last().0), 12);
        lemma_pow2_pos(12 - rank_code(cards.last().0));
        lemma_pow2_table();
    }
}

/// h_rec is non-negative and, for vectors, the partial sums are bounded by the whole
pub proof fn lemma_h_rec_nonneg(q: Seq<u8>, r: int, rem: int)
    requires q.len() == 13, -1 <= r <= 12,
    ensures h_rec(q, r, rem) >= 0,
    decreases r + 1
{
    if r >= 0 {
        lemma_h_rec_nonneg(q, r - 1, rem);
        lemma_h_rec_nonneg(q, r - 1, rem - q[r]);
    }
}

pub proof fn lemma_psum_vsum(q: Seq<u8>, r: int)
    requires q.len() == 13, -1 <= r <= 12,
    ensures psum(q, r) + vsum(q, r + 1) == vsum(q, 0), psum(q, r) >= 0,
    decreases r + 1
{
    if r >= 0 { lemma_psum_vsum(q, r - 1); }
}

pub open spec fn type_of_cat(c: int) -> MadeHandType {
    if c == 8 { MadeHandType::StraightFlush } else if c == 7 { MadeHandType::Quads }
    else if c == 6 { MadeHandType::FullHouse } else if c == 5 { MadeHandType::Flush }
    else if c == 4 { MadeHandType::Straight } else if c == 3 { MadeHandType::Trips }
    else if c == 2 { MadeHandType::TwoPair } else if c == 1 { MadeHandType::Pair }
    else { MadeHandType::HighCard }
}

// ---------- C11 (L11a): the class of a hand does not depend on how the suits are named ----------

pub open spec fn relabel(cards: Seq<Card>, p: spec_fn(Suit) -> Suit) -> Seq<Card> {
    cards.map_values(|c: Card| Card(c.0, p(c.1)))
}

/// p is a permutation of the four suits with inverse q
pub open spec fn is_perm(p: spec_fn(Suit) -> Suit, q: spec_fn(Suit) -> Suit) -> bool {
    (forall|s: Suit| #[trigger] q(p(s)) == s) && (forall|s: Suit| #[trigger] p(q(s)) == s)
}

pub proof fn lemma_relabel_counts(cards: Seq<Card>, p: spec_fn(Suit) -> Suit, q: spec_fn(Suit) -> Suit, s: Suit, r: int)
    requires is_perm(p, q),
    ensures
        cnt_suit(relabel(cards, p), p(s)) == cnt_suit(cards, s),
        cnt_card(relabel(cards, p), r, p(s)) == cnt_card(cards, r, s),
        cnt_rank(relabel(cards, p), r) == cnt_rank(cards, r),
    decreases cards.len()
{
    if cards.len() > 0 {
        lemma_relabel_counts(cards.drop_last(), p, q, s, r);
        assert(relabel(cards, p).drop_last() =~= relabel(cards.drop_last(), p));
        let c = cards.last();
        assert(relabel(cards, p).last() == Card(c.0, p(c.1)));
        assert(p(c.1) == p(s) <==> c.1 == s) by { assert(q(p(c.1)) == c.1 && q(p(s)) == s); }
    }
}

/// with five or more cards of suit s among seven, class7 is the best suited sub-hand of that suit
pub proof fn lemma_class7_flush(cards: Seq<Card>, s: Suit)
    requires cards.len() == 7, cnt_suit(cards, s) >= 5,
    ensures class7(cards) == best_of(suit_mult(cards, s), true, cnt_suit(cards, s)),
{
    lemma_cnt_suit_total(cards);
}

pub proof fn lemma_class7_relabel(cards: Seq<Card>, p: spec_fn(Suit) -> Suit, q: spec_fn(Suit) -> Suit)
    requires is_perm(p, q), cards.len() == 7,
    ensures class7(relabel(cards, p)) == class7(cards),
{
    let rc = relabel(cards, p);
    lemma_cnt_suit_total(cards);
    lemma_cnt_suit_total(rc);
    assert forall|s: Suit| cnt_suit(rc, p(s)) == cnt_suit(cards, s) by { lemma_relabel_counts(cards, p, q, s, 0); }
    if exists|s: Suit| cnt_suit(cards, s) >= 5 {
        let s = choose|s: Suit| cnt_suit(cards, s) >= 5;
        lemma_class7_flush(cards, s);
        lemma_class7_flush(rc, p(s));
        assert(suit_mult(rc, p(s)) =~= suit_mult(cards, s)) by {
            assert forall|r: int| 0 <= r < 13 implies suit_mult(rc, p(s))[r] == suit_mult(cards, s)[r] by {
                lemma_relabel_counts(cards, p, q, s, r);
            }
        }
    } else {
        assert forall|t: Suit| cnt_suit(rc, t) < 5 by {
            assert(p(q(t)) == t);
            assert(cnt_suit(rc, p(q(t))) == cnt_suit(cards, q(t)));
        }
        assert(mult(rc) =~= mult(cards)) by {
            assert forall|r: int| 0 <= r < 13 implies mult(rc)[r] == mult(cards)[r] by {
                lemma_relabel_counts(cards, p, q, Suit::Spade, r);
            }
        }
    }
}

/// the order of presentation does not matter either: class7 is a function of the multiset of cards
/// (counts are symmetric); stated for a swap of two positions, which generates all 7! orders
pub proof fn lemma_counts_swap(cards: Seq<Card>, i: int, j: int, s: Suit, r: int)
    requires 0 <= i < j < cards.len(),
    ensures
        cnt_suit(cards.update(i, cards[j]).update(j, cards[i]), s) == cnt_suit(cards, s),
        cnt_card(cards.update(i, cards[j]).update(j, cards[i]), r, s) == cnt_card(cards, r, s),
        cnt_rank(cards.update(i, cards[j]).update(j, cards[i]), r) == cnt_rank(cards, r),
    decreases cards.len()
{
    let sw = cards.update(i, cards[j]).update(j, cards[i]);
    if j == cards.len() - 1 {
        // peel the last element of both; the prefixes differ in position i only
        lemma_counts_update(cards.drop_last(), i, cards[j], s, r);
        assert(sw.drop_last() =~= cards.drop_last().update(i, cards[j]));
        assert(sw.last() == cards[i]);
    } else {
        lemma_counts_swap(cards.drop_last(), i, j, s, r);
        assert(sw.drop_last() =~= cards.drop_last().update(i, cards[j]).update(j, cards[i]));
        assert(sw.last() == cards.last());
    }
}

pub open spec fn ind_suit(c: Card, s: Suit) -> int { if c.1 == s { 1 } else { 0 } }
pub open spec fn ind_card(c: Card, r: int, s: Suit) -> int { if rank_code(c.0) == r && c.1 == s { 1 } else { 0 } }
pub open spec fn ind_rank(c: Card, r: int) -> int { if rank_code(c.0) == r { 1 } else { 0 } }

pub proof fn lemma_counts_update(cards: Seq<Card>, i: int, c: Card, s: Suit, r: int)
    requires 0 <= i < cards.len(),
    ensures
        cnt_suit(cards.update(i, c), s) == cnt_suit(cards, s) - ind_suit(cards[i], s) + ind_suit(c, s),
        cnt_card(cards.update(i, c), r, s) == cnt_card(cards, r, s) - ind_card(cards[i], r, s) + ind_card(c, r, s),
        cnt_rank(cards.update(i, c), r) == cnt_rank(cards, r) - ind_rank(cards[i], r) + ind_rank(c, r),
    decreases cards.len()
{
    let u = cards.update(i, c);
    if i == cards.len() - 1 {
        assert(u.drop_last() =~= cards.drop_last());
    } else {
        lemma_counts_update(cards.drop_last(), i, c, s, r);
        assert(u.drop_last() =~= cards.drop_last().update(i, c));
        assert(u.last() == cards.last());
    }
}

pub proof fn lemma_class7_swap(cards: Seq<Card>, i: int, j: int)
    requires 0 <= i < j < cards.len(), cards.len() == 7,
    ensures class7(cards.update(i, cards[j]).update(j, cards[i])) == class7(cards),
{
    let sw = cards.update(i, cards[j]).update(j, cards[i]);
    assert forall|s: Suit| cnt_suit(sw, s) == cnt_suit(cards, s) && suit_mult(sw, s) =~= suit_mult(cards, s) by {
        lemma_counts_swap(cards, i, j, s, 0);
        assert forall|r: int| 0 <= r < 13 implies suit_mult(sw, s)[r] == suit_mult(cards, s)[r] by { lemma_counts_swap(cards, i, j, s, r); }
    }
    assert(mult(sw) =~= mult(cards)) by {
        assert forall|r: int| 0 <= r < 13 implies mult(sw)[r] == mult(cards)[r] by { lemma_counts_swap(cards, i, j, Suit::Spade, r); }
    }
}
