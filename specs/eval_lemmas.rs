// ===========================================================================
// Unit EVAL: lemmas connecting card sequences to vectors (hand-written proofs).
// ===========================================================================

pub open spec fn suit_of(j: int) -> Suit {
    if j == 0 { Suit::Spade } else if j == 1 { Suit::Heart } else if j == 2 { Suit::Diamond } else { Suit::Club }
}

pub proof fn lemma_take_step<T>(s: Seq<T>, i: int)
    requires 0 <= i < s.len(),
    ensures s.take(i + 1).drop_last() == s.take(i), s.take(i + 1).last() == s[i], s.take(i + 1).len() == i + 1,
{
    assert(s.take(i + 1).drop_last() =~= s.take(i));
}

pub proof fn lemma_take_all<T>(s: Seq<T>)
    ensures s.take(s.len() as int) == s,
{
    assert(s.take(s.len() as int) =~= s);
}

pub proof fn lemma_cnt_suit_total(cards: Seq<Card>)
    ensures cnt_suit(cards, Suit::Spade) + cnt_suit(cards, Suit::Heart) + cnt_suit(cards, Suit::Diamond)
            + cnt_suit(cards, Suit::Club) == cards.len(),
        cnt_suit(cards, Suit::Spade) >= 0, cnt_suit(cards, Suit::Heart) >= 0,
        cnt_suit(cards, Suit::Diamond) >= 0, cnt_suit(cards, Suit::Club) >= 0,
    decreases cards.len()
{
    if cards.len() > 0 { lemma_cnt_suit_total(cards.drop_last()); }
}

pub proof fn lemma_cnt_suit_prefix(cards: Seq<Card>, i: int, s: Suit)
    requires 0 <= i <= cards.len(),
    ensures 0 <= cnt_suit(cards.take(i), s) <= cnt_suit(cards, s),
    decreases cards.len() - i
{
    if i < cards.len() {
        lemma_take_step(cards, i);
        lemma_cnt_suit_prefix(cards, i + 1, s);
        lemma_cnt_nonneg(cards.take(i), 0, s);
    } else {
        lemma_take_all(cards);
        lemma_cnt_nonneg(cards, 0, s);
    }
}

pub proof fn lemma_cnt_nonneg(cards: Seq<Card>, r: int, s: Suit)
    ensures 0 <= cnt_suit(cards, s) <= cards.len(), 0 <= cnt_rank(cards, r) <= cards.len(),
        0 <= cnt_card(cards, r, s) <= cards.len(),
    decreases cards.len()
{
    if cards.len() > 0 { lemma_cnt_nonneg(cards.drop_last(), r, s); }
}

/// a card that occurs in a duplicate-free sequence occurs once
pub proof fn lemma_cnt_card_distinct(cards: Seq<Card>, r: int, s: Suit)
    requires distinct_cards(cards),
    ensures 0 <= cnt_card(cards, r, s) <= 1,
        cnt_card(cards, r, s) == 1 ==> exists|i: int| 0 <= i < cards.len() && rank_code(cards[i].0) == r && cards[i].1 == s,
    decreases cards.len()
{
    if cards.len() > 0 {
        let p = cards.drop_last();
        assert(distinct_cards(p)) by {
            assert forall|i: int, j: int| 0 <= i < j < p.len() implies p[i] != p[j] by {
                assert(p[i] == cards[i] && p[j] == cards[j]);
            }
        }
        lemma_cnt_card_distinct(p, r, s);
        let c = cards.last();
        if rank_code(c.0) == r && c.1 == s {
            if cnt_card(p, r, s) == 1 {
                let i = choose|i: int| 0 <= i < p.len() && rank_code(p[i].0) == r && p[i].1 == s;
                assert(p[i] == cards[i]);
                lemma_rank_code_inj(cards[i].0, c.0);
                assert(cards[i] == cards[cards.len() - 1]);
                assert(false);
            }
            assert(rank_code(cards[cards.len() - 1].0) == r);
        } else if cnt_card(p, r, s) == 1 {
            let i = choose|i: int| 0 <= i < p.len() && rank_code(p[i].0) == r && p[i].1 == s;
            assert(p[i] == cards[i]);
        }
    }
}

pub proof fn lemma_rank_code_inj(a: Rank, b: Rank)
    ensures rank_code(a) == rank_code(b) ==> a == b, 0 <= rank_code(a) <= 12,
{
}

/// the rank count is the sum over the four suits
pub proof fn lemma_cnt_rank_split(cards: Seq<Card>, r: int)
    ensures cnt_rank(cards, r) == cnt_card(cards, r, Suit::Spade) + cnt_card(cards, r, Suit::Heart)
            + cnt_card(cards, r, Suit::Diamond) + cnt_card(cards, r, Suit::Club),
    decreases cards.len()
{
    if cards.len() > 0 { lemma_cnt_rank_split(cards.drop_last(), r); }
}

pub proof fn lemma_mult_ok(cards: Seq<Card>)
    requires distinct_cards(cards), cards.len() <= 7,
    ensures vec_ok(mult(cards), 4),
{
    assert forall|r: int| 0 <= r < 13 implies 0 <= #[trigger] mult(cards)[r] <= 4 by {
        lemma_cnt_rank_split(cards, r);
        lemma_cnt_card_distinct(cards, r, Suit::Spade);
        lemma_cnt_card_distinct(cards, r, Suit::Heart);
        lemma_cnt_card_distinct(cards, r, Suit::Diamond);
        lemma_cnt_card_distinct(cards, r, Suit::Club);
    }
}

pub proof fn lemma_suit_mult_ok(cards: Seq<Card>, s: Suit)
    requires distinct_cards(cards), cards.len() <= 7,
    ensures vec_ok(suit_mult(cards, s), 1),
{
    assert forall|r: int| 0 <= r < 13 implies 0 <= #[trigger] suit_mult(cards, s)[r] <= 1 by {
        lemma_cnt_card_distinct(cards, r, s);
    }
}

/// sum over codes [from, 13) of the per-code counts
pub open spec fn rsum(cards: Seq<Card>, from: int) -> int
    decreases 13 - from
{
    if from < 0 || from >= 13 { 0 } else { cnt_rank(cards, from) + rsum(cards, from + 1) }
}

pub open spec fn csum(cards: Seq<Card>, s: Suit, from: int) -> int
    decreases 13 - from
{
    if from < 0 || from >= 13 { 0 } else { cnt_card(cards, from, s) + csum(cards, s, from + 1) }
}

pub proof fn lemma_rsum_step(cards: Seq<Card>, from: int)
    requires cards.len() > 0, 0 <= from <= 13,
    ensures rsum(cards, from) == rsum(cards.drop_last(), from) + if from <= rank_code(cards.last().0) { 1int } else { 0int },
    decreases 13 - from
{
    lemma_rank_code_inj(cards.last().0, cards.last().0);
    if from < 13 { lemma_rsum_step(cards, from + 1); }
}

pub proof fn lemma_rsum_total(cards: Seq<Card>)
    ensures rsum(cards, 0) == cards.len(),
    decreases cards.len()
{
    if cards.len() > 0 {
        lemma_rsum_total(cards.drop_last());
        lemma_rsum_step(cards, 0);
        lemma_rank_code_inj(cards.last().0, cards.last().0);
    } else {
        lemma_rsum_zero(cards, 0);
    }
}

pub proof fn lemma_rsum_zero(cards: Seq<Card>, from: int)
    requires cards.len() == 0, 0 <= from <= 13,
    ensures rsum(cards, from) == 0, forall|s: Suit| csum(cards, s, from) == 0,
    decreases 13 - from
{
    if from < 13 { lemma_rsum_zero(cards, from + 1); }
    assert forall|s: Suit| csum(cards, s, from) == 0 by {
        lemma_csum_zero(cards, s, from);
    }
}

pub proof fn lemma_csum_zero(cards: Seq<Card>, s: Suit, from: int)
    requires cards.len() == 0, 0 <= from <= 13,
    ensures csum(cards, s, from) == 0,
    decreases 13 - from
{
    if from < 13 { lemma_csum_zero(cards, s, from + 1); }
}

pub proof fn lemma_csum_step(cards: Seq<Card>, s: Suit, from: int)
    requires cards.len() > 0, 0 <= from <= 13,
    ensures csum(cards, s, from) == csum(cards.drop_last(), s, from)
        + if cards.last().1 == s && from <= rank_code(cards.last().0) { 1int } else { 0int },
    decreases 13 - from
{
    lemma_rank_code_inj(cards.last().0, cards.last().0);
    if from < 13 { lemma_csum_step(cards, s, from + 1); }
}

pub proof fn lemma_csum_total(cards: Seq<Card>, s: Suit)
    ensures csum(cards, s, 0) == cnt_suit(cards, s),
    decreases cards.len()
{
    if cards.len() > 0 {
        lemma_csum_total(cards.drop_last(), s);
        lemma_csum_step(cards, s, 0);
        lemma_rank_code_inj(cards.last().0, cards.last().0);
    } else {
        lemma_csum_zero(cards, s, 0);
    }
}

pub proof fn lemma_vsum_mult(cards: Seq<Card>, from: int)
    requires cards.len() <= 255, 0 <= from <= 13,
    ensures vsum(mult(cards), from) == rsum(cards, from),
    decreases 13 - from
{
    if from < 13 {
        lemma_vsum_mult(cards, from + 1);
        lemma_cnt_nonneg(cards, from, Suit::Spade);
    }
}

pub proof fn lemma_vsum_suit_mult(cards: Seq<Card>, s: Suit, from: int)
    requires cards.len() <= 255, 0 <= from <= 13,
    ensures vsum(suit_mult(cards, s), from) == csum(cards, s, from),
    decreases 13 - from
{
    if from < 13 {
        lemma_vsum_suit_mult(cards, s, from + 1);
        lemma_cnt_nonneg(cards, from, s);
    }
}

/// what hash_for_flush's loop adds up
pub open spec fn mask_sum(cards: Seq<Card>, s: Suit) -> int
    decreases cards.len()
{
    if cards.len() == 0 { 0 } else {
        mask_sum(cards.drop_last(), s) + if cards.last().1 == s { pow2(12 - rank_code(cards.last().0)) } else { 0int }
    }
}

/// sum over codes [from, 13) of count * 2^(12 - code)
pub open spec fn msum(cards: Seq<Card>, s: Suit, from: int) -> int
    decreases 13 - from
{
    if from < 0 || from >= 13 { 0 } else { cnt_card(cards, from, s) * pow2(12 - from) + msum(cards, s, from + 1) }
}

pub proof fn lemma_msum_step(cards: Seq<Card>, s: Suit, from: int)
    requires cards.len() > 0, 0 <= from <= 13,
    ensures msum(cards, s, from) == msum(cards.drop_last(), s, from)
        + if cards.last().1 == s && from <= rank_code(cards.last().0) { pow2(12 - rank_code(cards.last().0)) } else { 0int },
    decreases 13 - from
{
    lemma_rank_code_inj(cards.last().0, cards.last().0);
    if from < 13 {
        lemma_msum_step(cards, s, from + 1);
        let a = cnt_card(cards.drop_last(), from, s);
        let p = pow2(12 - from);
        assert((a + 1) * p == a * p + p) by (nonlinear_arith);
    }
}

pub proof fn lemma_msum_empty(cards: Seq<Card>, s: Suit, from: int)
    requires cards.len() == 0, 0 <= from <= 13,
    ensures msum(cards, s, from) == 0,
    decreases 13 - from
{
    if from < 13 { lemma_msum_empty(cards, s, from + 1); }
}

pub proof fn lemma_mask_sum(cards: Seq<Card>, s: Suit)
    ensures mask_sum(cards, s) == msum(cards, s, 0),
    decreases cards.len()
{
    if cards.len() > 0 {
        lemma_mask_sum(cards.drop_last(), s);
        lemma_msum_step(cards, s, 0);
        lemma_rank_code_inj(cards.last().0, cards.last().0);
    } else {
        lemma_msum_empty(cards, s, 0);
    }
}

pub proof fn lemma_mask_val_suit_mult(cards: Seq<Card>, s: Suit, from: int)
    requires cards.len() <= 255, 0 <= from <= 13,
    ensures mask_val(suit_mult(cards, s), from) == msum(cards, s, from),
    decreases 13 - from
{
    if from < 13 {
        lemma_mask_val_suit_mult(cards, s, from + 1);
        lemma_cnt_nonneg(cards, from, s);
    }
}

pub proof fn lemma_pow2_table()
    ensures pow2(0) == 1, pow2(1) == 2, pow2(2) == 4, pow2(3) == 8, pow2(4) == 16, pow2(5) == 32, pow2(6) == 64,
        pow2(7) == 128, pow2(8) == 256, pow2(9) == 512, pow2(10) == 1024, pow2(11) == 2048, pow2(12) == 4096,
{
    assert(pow2(12) == 4096) by (compute);
    assert(pow2(11) == 2048) by (compute);
    assert(pow2(10) == 1024) by (compute);
    assert(pow2(9) == 512) by (compute);
    assert(pow2(8) == 256) by (compute);
    assert(pow2(7) == 128) by (compute);
    assert(pow2(6) == 64) by (compute);
    assert(pow2(5) == 32) by (compute);
    assert(pow2(4) == 16) by (compute);
    assert(pow2(3) == 8) by (compute);
    assert(pow2(2) == 4) by (compute);
    assert(pow2(1) == 2) by (compute);
    assert(pow2(0) == 1) by (compute);
}

pub proof fn lemma_mask_sum_bound(cards: Seq<Card>, s: Suit)
    ensures 0 <= mask_sum(cards, s) <= 4096 * cards.len(),
    decreases cards.len()
{
    if cards.len() > 0 {
        lemma_mask_sum_bound(cards.drop_last(), s);
        lemma_rank_code_inj(cards.last().0, cards.last().0);
        lemma_pow2_mono(12 - rank_code(cards.last().0), 12);
        lemma_pow2_pos(12 - rank_code(cards.last().0));
        lemma_pow2_table();
    }
}

/// h_rec is non-negative and, for vectors, the partial sums are bounded by the whole
pub proof fn lemma_h_rec_nonneg(q: Seq<u8>, r: int, rem: int)
    requires q.len() == 13, -1 <= r <= 12,
    ensures h_rec(q, r, rem) >= 0,
    decreases r + 1
{
    if r >= 0 {
        lemma_h_rec_nonneg(q, r - 1, rem);
        lemma_h_rec_nonneg(q, r - 1, rem - q[r]);
    }
}

pub proof fn lemma_psum_vsum(q: Seq<u8>, r: int)
    requires q.len() == 13, -1 <= r <= 12,
    ensures psum(q, r) + vsum(q, r + 1) == vsum(q, 0), psum(q, r) >= 0,
    decreases r + 1
{
    if r >= 0 { lemma_psum_vsum(q, r - 1); }
}

pub open spec fn type_of_cat(c: int) -> MadeHandType {
    if c == 8 { MadeHandType::StraightFlush } else if c == 7 { MadeHandType::Quads }
    else if c == 6 { MadeHandType::FullHouse } else if c == 5 { MadeHandType::Flush }
    else if c == 4 { MadeHandType::Straight } else if c == 3 { MadeHandType::Trips }
    else if c == 2 { MadeHandType::TwoPair } else if c == 1 { MadeHandType::Pair }
    else { MadeHandType::HighCard }
}

// ---------- C11 (L11a): the class of a hand does not depend on how the suits are named ----------

pub open spec fn relabel(cards: Seq<Card>, p: spec_fn(Suit) -> Suit) -> Seq<Card> {
    cards.map_values(|c: Card| Card(c.0, p(c.1)))
}

/// p is a permutation of the four suits with inverse q
pub open spec fn is_perm(p: spec_fn(Suit) -> Suit, q: spec_fn(Suit) -> Suit) -> bool {
    (forall|s: Suit| #[trigger] q(p(s)) == s) && (forall|s: Suit| #[trigger] p(q(s)) == s)
}

pub proof fn lemma_relabel_counts(cards: Seq<Card>, p: spec_fn(Suit) -> Suit, q: spec_fn(Suit) -> Suit, s: Suit, r: int)
    requires is_perm(p, q),
    ensures
        cnt_suit(relabel(cards, p), p(s)) == cnt_suit(cards, s),
        cnt_card(relabel(cards, p), r, p(s)) == cnt_card(cards, r, s),
        cnt_rank(relabel(cards, p), r) == cnt_rank(cards, r),
    decreases cards.len()
{
    if cards.len() > 0 {
        lemma_relabel_counts(cards.drop_last(), p, q, s, r);
        assert(relabel(cards, p).drop_last() =~= relabel(cards.drop_last(), p));
        let c = cards.last();
        assert(relabel(cards, p).last() == Card(c.0, p(c.1)));
        assert(p(c.1) == p(s) <==> c.1 == s) by { assert(q(p(c.1)) == c.1 && q(p(s)) == s); }
    }
}

/// with five or more cards of suit s among seven, class7 is the best suited sub-hand of that suit
pub proof fn lemma_class7_flush(cards: Seq<Card>, s: Suit)
    requires cards.len() == 7, cnt_suit(cards, s) >= 5,
    ensures class7(cards) == best_of(suit_mult(cards, s), true, cnt_suit(cards, s)),
{
    lemma_cnt_suit_total(cards);
}

pub proof fn lemma_class7_relabel(cards: Seq<Card>, p: spec_fn(Suit) -> Suit, q: spec_fn(Suit) -> Suit)
    requires is_perm(p, q), cards.len() == 7,
    ensures class7(relabel(cards, p)) == class7(cards),
{
    let rc = relabel(cards, p);
    lemma_cnt_suit_total(cards);
    lemma_cnt_suit_total(rc);
    assert forall|s: Suit| cnt_suit(rc, p(s)) == cnt_suit(cards, s) by { lemma_relabel_counts(cards, p, q, s, 0); }
    if exists|s: Suit| cnt_suit(cards, s) >= 5 {
        let s = choose|s: Suit| cnt_suit(cards, s) >= 5;
        lemma_class7_flush(cards, s);
        lemma_class7_flush(rc, p(s));
        assert(suit_mult(rc, p(s)) =~= suit_mult(cards, s)) by {
            assert forall|r: int| 0 <= r < 13 implies suit_mult(rc, p(s))[r] == suit_mult(cards, s)[r] by {
                lemma_relabel_counts(cards, p, q, s, r);
            }
        }
    } else {
        assert forall|t: Suit| cnt_suit(rc, t) < 5 by {
            assert(p(q(t)) == t);
            assert(cnt_suit(rc, p(q(t))) == cnt_suit(cards, q(t)));
        }
        assert(mult(rc) =~= mult(cards)) by {
            assert forall|r: int| 0 <= r < 13 implies mult(rc)[r] == mult(cards)[r] by {
                lemma_relabel_counts(cards, p, q, Suit::Spade, r);
            }
        }
    }
}

/// the order of presentation does not matter either: class7 is a function of the multiset of cards
/// (counts are symmetric); stated for a swap of two positions, which generates all 7! orders
pub proof fn lemma_counts_swap(cards: Seq<Card>, i: int, j: int, s: Suit, r: int)
    requires 0 <= i < j < cards.len(),
    ensures
        cnt_suit(cards.update(i, cards[j]).update(j, cards[i]), s) == cnt_suit(cards, s),
        cnt_card(cards.update(i, cards[j]).update(j, cards[i]), r, s) == cnt_card(cards, r, s),
        cnt_rank(cards.update(i, cards[j]).update(j, cards[i]), r) == cnt_rank(cards, r),
    decreases cards.len()
{
    let sw = cards.update(i, cards[j]).update(j, cards[i]);
    if j == cards.len() - 1 {
        // peel the last element of both; the prefixes differ in position i only
        lemma_counts_update(cards.drop_last(), i, cards[j], s, r);
        assert(sw.drop_last() =~= cards.drop_last().update(i, cards[j]));
        assert(sw.last() == cards[i]);
    } else {
        lemma_counts_swap(cards.drop_last(), i, j, s, r);
        assert(sw.drop_last() =~= cards.drop_last().update(i, cards[j]).update(j, cards[i]));
        assert(sw.last() == cards.last());
    }
}

pub open spec fn ind_suit(c: Card, s: Suit) -> int { if c.1 == s { 1 } else { 0 } }
pub open spec fn ind_card(c: Card, r: int, s: Suit) -> int { if rank_code(c.0) == r && c.1 == s { 1 } else { 0 } }
pub open spec fn ind_rank(c: Card, r: int) -> int { if rank_code(c.0) == r { 1 } else { 0 } }

pub proof fn lemma_counts_update(cards: Seq<Card>, i: int, c: Card, s: Suit, r: int)
    requires 0 <= i < cards.len(),
    ensures
        cnt_suit(cards.update(i, c), s) == cnt_suit(cards, s) - ind_suit(cards[i], s) + ind_suit(c, s),
        cnt_card(cards.update(i, c), r, s) == cnt_card(cards, r, s) - ind_card(cards[i], r, s) + ind_card(c, r, s),
        cnt_rank(cards.update(i, c), r) == cnt_rank(cards, r) - ind_rank(cards[i], r) + ind_rank(c, r),
    decreases cards.len()
{
    let u = cards.update(i, c);
    if i == cards.len() - 1 {
        assert(u.drop_last() =~= cards.drop_last());
    } else {
        lemma_counts_update(cards.drop_last(), i, c, s, r);
        assert(u.drop_last() =~= cards.drop_last().update(i, c));
        assert(u.last() == cards.last());
    }
}

pub proof fn lemma_class7_swap(cards: Seq<Card>, i: int, j: int)
    requires 0 <= i < j < cards.len(), cards.len() == 7,
    ensures class7(cards.update(i, cards[j]).update(j, cards[i])) == class7(cards),
{
    let sw = cards.update(i, cards[j]).update(j, cards[i]);
    assert forall|s: Suit| cnt_suit(sw, s) == cnt_suit(cards, s) && suit_mult(sw, s) =~= suit_mult(cards, s) by {
        lemma_counts_swap(cards, i, j, s, 0);
        assert forall|r: int| 0 <= r < 13 implies suit_mult(sw, s)[r] == suit_mult(cards, s)[r] by { lemma_counts_swap(cards, i, j, s, r); }
    }
    assert(mult(sw) =~= mult(cards)) by {
        assert forall|r: int| 0 <= r < 13 implies mult(sw)[r] == mult(cards)[r] by { lemma_counts_swap(cards, i, j, Suit::Spade, r); }
    }
}

// ---------- C11 (L11a'): one relabelled deal.  After a suit relabelling the same seven cards can reach the evaluator in a
// different order: CardPair::new re-canonicalises the two hole cards (same rank, suits reordered by p) and the deck
// order of turn and river within a rank changes, so positions (0,1) and/or (5,6) may be exchanged.  The strength is the same.
pub open spec fn deal_hand(h0: Card, h1: Card, f0: Card, f1: Card, f2: Card, t: Card, r: Card) -> Seq<Card> {
    seq![h0, h1, f0, f1, f2, t, r]
}

pub open spec fn rl(c: Card, p: spec_fn(Suit) -> Suit) -> Card { Card(c.0, p(c.1)) }

pub proof fn lemma_deal_relabel(h0: Card, h1: Card, f0: Card, f1: Card, f2: Card, t: Card, r: Card,
                                p: spec_fn(Suit) -> Suit, q: spec_fn(Suit) -> Suit, flip_hole: bool, flip_tr: bool)
    requires is_perm(p, q),
    ensures
        class7(deal_hand(if flip_hole { rl(h1, p) } else { rl(h0, p) }, if flip_hole { rl(h0, p) } else { rl(h1, p) },
                         rl(f0, p), rl(f1, p), rl(f2, p),
                         if flip_tr { rl(r, p) } else { rl(t, p) }, if flip_tr { rl(t, p) } else { rl(r, p) }))
            == class7(deal_hand(h0, h1, f0, f1, f2, t, r)),
{
    let a = deal_hand(h0, h1, f0, f1, f2, t, r);
    let b = relabel(a, p);
    lemma_class7_relabel(a, p, q);
    assert(b =~= deal_hand(rl(h0, p), rl(h1, p), rl(f0, p), rl(f1, p), rl(f2, p), rl(t, p), rl(r, p)));
    let c = if flip_hole { b.update(0, b[1]).update(1, b[0]) } else { b };
    if flip_hole { lemma_class7_swap(b, 0, 1); }
    assert(class7(c) == class7(a));
    let d = if flip_tr { c.update(5, c[6]).update(6, c[5]) } else { c };
    if flip_tr { lemma_class7_swap(c, 5, 6); }
    assert(d =~= deal_hand(if flip_hole { rl(h1, p) } else { rl(h0, p) }, if flip_hole { rl(h0, p) } else { rl(h1, p) },
                         rl(f0, p), rl(f1, p), rl(f2, p),
                         if flip_tr { rl(r, p) } else { rl(t, p) }, if flip_tr { rl(t, p) } else { rl(r, p) }));
}

// ---------- best_of is the minimum of class5 over ALL five-card sub-vectors (first principles at rank level) ----------

pub open spec fn sub_le(a: Seq<u8>, b: Seq<u8>) -> bool {
    a.len() == 13 && b.len() == 13 && forall|r: int| 0 <= r < 13 ==> #[trigger] a[r] <= b[r]
}

pub proof fn lemma_vsum_le(a: Seq<u8>, b: Seq<u8>, from: int)
    requires sub_le(a, b), 0 <= from <= 13,
    ensures vsum(a, from) <= vsum(b, from),
        vsum(a, from) == vsum(b, from) ==> forall|r: int| from <= r < 13 ==> a[r] == b[r],
    decreases 13 - from
{
    if from < 13 { lemma_vsum_le(a, b, from + 1); assert(a[from] <= b[from]); }
}

/// best_drop is at most every candidate it ranges over
pub proof fn lemma_best_drop_le(q: Seq<u8>, flush: bool, n: int, from: int, a: int)
    requires q.len() == 13, n > 5, 0 <= from <= a < 13, q[a] > 0,
    ensures best_drop(q, flush, n, from) <= best_of(vdec(q, a), flush, n - 1),
    decreases 13 - from
{
    if from < a { lemma_best_drop_le(q, flush, n, from + 1, a); }
}

/// (A) no five-card sub-hand is better than best_of
pub proof fn lemma_best_of_lower(q: Seq<u8>, q5: Seq<u8>, flush: bool, n: int)
    requires q.len() == 13, 5 <= n <= 7, vsum(q, 0) == n, sub_le(q5, q), vsum(q5, 0) == 5,
    ensures best_of(q, flush, n) <= class5(q5, flush),
    decreases n
{
    lemma_vsum_le(q5, q, 0);
    if n == 5 {
        assert(q5 =~= q);
    } else {
        // some rank has more cards in q than in q5: discard one there
        let a = lemma_find_gap(q5, q, 0);
        lemma_vsum_dec(q, a, 0);
        assert(sub_le(q5, vdec(q, a))) by {
            assert forall|r: int| 0 <= r < 13 implies #[trigger] q5[r] <= vdec(q, a)[r] by { assert(q5[r] <= q[r]); }
        }
        lemma_best_of_lower(vdec(q, a), q5, flush, n - 1);
        lemma_best_drop_le(q, flush, n, 0, a);
    }
}

pub proof fn lemma_find_gap(a: Seq<u8>, b: Seq<u8>, from: int) -> (r: int)
    requires sub_le(a, b), 0 <= from <= 13, vsum(a, from) < vsum(b, from),
    ensures from <= r < 13, a[r] < b[r],
    decreases 13 - from
{
    if a[from] < b[from] { from } else { assert(a[from] <= b[from]); lemma_find_gap(a, b, from + 1) }
}

/// (B) best_of is attained by some five-card sub-hand (or is NOCLASS when nothing can be discarded)
pub open spec fn fcap(flush: bool) -> int { if flush { 1 } else { 4 } }

pub proof fn lemma_best_of_attained(q: Seq<u8>, flush: bool, n: int) -> (q5: Seq<u8>)
    requires q.len() == 13, 5 <= n <= 7, vsum(q, 0) == n, classes_ok(), vec_ok(q, fcap(flush)),
    ensures sub_le(q5, q), vsum(q5, 0) == 5, best_of(q, flush, n) == class5(q5, flush),
    decreases n, 14int
{
    if n == 5 { q } else {
        let a0 = lemma_find_pos(q, 0);
        let (a, q5) = lemma_best_drop_attained(q, flush, n, 0, a0);
        q5
    }
}

pub proof fn lemma_find_pos(q: Seq<u8>, from: int) -> (r: int)
    requires q.len() == 13, 0 <= from <= 13, vsum(q, from) > 0,
    ensures from <= r < 13, q[r] > 0,
    decreases 13 - from
{
    if q[from] > 0 { from } else { lemma_find_pos(q, from + 1) }
}

pub proof fn lemma_best_drop_attained(q: Seq<u8>, flush: bool, n: int, from: int, a0: int) -> (r: (int, Seq<u8>))
    requires q.len() == 13, 5 < n <= 7, vsum(q, 0) == n, 0 <= from <= a0 < 13, q[a0] > 0, classes_ok(), vec_ok(q, fcap(flush)),
    ensures from <= r.0 < 13, q[r.0] > 0, sub_le(r.1, q), vsum(r.1, 0) == 5,
        best_drop(q, flush, n, from) == class5(r.1, flush), best_drop(q, flush, n, from) == best_of(vdec(q, r.0), flush, n - 1),
    decreases n, 13 - from
{
    // candidate at `from` (if any) against the best of the rest
    assert forall|x: int| 0 <= x < 13 && q[x] > 0 implies vec_ok(#[trigger] vdec(q, x), fcap(flush)) by {
        assert forall|i: int| 0 <= i < 13 implies 0 <= #[trigger] vdec(q, x)[i] <= fcap(flush) by { assert(0 <= q[i] <= fcap(flush)); }
    }
    if from == a0 {
        lemma_vsum_dec(q, from, 0);
        let c5 = lemma_best_of_attained(vdec(q, from), flush, n - 1);
        assert(sub_le(c5, q)) by { assert forall|r: int| 0 <= r < 13 implies #[trigger] c5[r] <= q[r] by { assert(c5[r] <= vdec(q, from)[r]); } }
        let cand = best_of(vdec(q, from), flush, n - 1);
        // is there another positive entry later?
        if exists|b: int| from < b < 13 && q[b] > 0 {
            let b = choose|b: int| from < b < 13 && q[b] > 0;
            let rest = lemma_best_drop_attained(q, flush, n, from + 1, b);
            if cand <= best_drop(q, flush, n, from + 1) { (from, c5) } else { rest }
        } else {
            lemma_best_drop_none(q, flush, n, from + 1);
            assert(vec_ok(c5, fcap(flush))) by {
                assert forall|i: int| 0 <= i < 13 implies 0 <= #[trigger] c5[i] <= fcap(flush) by { assert(c5[i] <= q[i] && 0 <= q[i] <= fcap(flush)); }
            }
            assert(class5_slot_ok(c5, flush));
            (from, c5)
        }
    } else {
        let rest = lemma_best_drop_attained(q, flush, n, from + 1, a0);
        if q[from] > 0 {
            lemma_vsum_dec(q, from, 0);
            let c5 = lemma_best_of_attained(vdec(q, from), flush, n - 1);
            assert(sub_le(c5, q)) by { assert forall|r: int| 0 <= r < 13 implies #[trigger] c5[r] <= q[r] by { assert(c5[r] <= vdec(q, from)[r]); } }
            if best_of(vdec(q, from), flush, n - 1) <= best_drop(q, flush, n, from + 1) { (from, c5) } else { rest }
        } else { rest }
    }
}

pub proof fn lemma_best_drop_none(q: Seq<u8>, flush: bool, n: int, from: int)
    requires q.len() == 13, 0 <= from <= 13, forall|b: int| from <= b < 13 ==> q[b] == 0,
    ensures best_drop(q, flush, n, from) == NOCLASS,
    decreases 13 - from
{
    if from < 13 && n > 5 { lemma_best_drop_none(q, flush, n, from + 1); }
}


// ---------- first principles at card level: class7 is the best class among the 21 five-card sub-hands ----------

/// the five cards left after removing positions i < j
pub open spec fn without2(cards: Seq<Card>, i: int, j: int) -> Seq<Card> { cards.remove(j).remove(i) }

pub open spec fn same_suit(h: Seq<Card>) -> bool { forall|k: int| 0 <= k < h.len() ==> (#[trigger] h[k]).1 == h[0].1 }

/// the standard class of five concrete cards
pub open spec fn class5_cards(h: Seq<Card>) -> int {
    if same_suit(h) { class5(suit_mult(h, h[0].1), true) } else { class5(mult(h), false) }
}

/// v is the class of the best five-card hand contained in the seven cards
pub open spec fn is_best7(cards: Seq<Card>, v: int) -> bool {
    &&& forall|i: int, j: int| 0 <= i < j < 7 ==> v <= class5_cards(#[trigger] without2(cards, i, j))
    &&& exists|i: int, j: int| 0 <= i < j < 7 && v == class5_cards(#[trigger] without2(cards, i, j))
}

pub proof fn lemma_counts_remove(cards: Seq<Card>, i: int, s: Suit, r: int)
    requires 0 <= i < cards.len(),
    ensures
        cnt_suit(cards.remove(i), s) == cnt_suit(cards, s) - ind_suit(cards[i], s),
        cnt_card(cards.remove(i), r, s) == cnt_card(cards, r, s) - ind_card(cards[i], r, s),
        cnt_rank(cards.remove(i), r) == cnt_rank(cards, r) - ind_rank(cards[i], r),
    decreases cards.len()
{
    let u = cards.remove(i);
    if i == cards.len() - 1 {
        assert(u =~= cards.drop_last());
    } else {
        lemma_counts_remove(cards.drop_last(), i, s, r);
        assert(u.drop_last() =~= cards.drop_last().remove(i));
        assert(u.last() == cards.last());
    }
}

pub proof fn lemma_without2_counts(cards: Seq<Card>, i: int, j: int, s: Suit, r: int)
    requires 0 <= i < j < cards.len(),
    ensures
        without2(cards, i, j).len() == cards.len() - 2,
        cnt_suit(without2(cards, i, j), s) == cnt_suit(cards, s) - ind_suit(cards[i], s) - ind_suit(cards[j], s),
        cnt_card(without2(cards, i, j), r, s) == cnt_card(cards, r, s) - ind_card(cards[i], r, s) - ind_card(cards[j], r, s),
        cnt_rank(without2(cards, i, j), r) == cnt_rank(cards, r) - ind_rank(cards[i], r) - ind_rank(cards[j], r),
{
    lemma_counts_remove(cards, j, s, r);
    let c1 = cards.remove(j);
    assert(c1[i] == cards[i]);
    lemma_counts_remove(c1, i, s, r);
}

pub proof fn lemma_without2_distinct(cards: Seq<Card>, i: int, j: int)
    requires 0 <= i < j < cards.len(), distinct_cards(cards),
    ensures distinct_cards(without2(cards, i, j)),
{
    let h = without2(cards, i, j);
    assert forall|x: int, y: int| 0 <= x < y < h.len() implies h[x] != h[y] by {
        let px = if x < i { x } else if x < j - 1 { x + 1 } else { x + 2 };
        let py = if y < i { y } else if y < j - 1 { y + 1 } else { y + 2 };
        assert(h[x] == cards[px] && h[y] == cards[py]);
    }
}

/// a rank that occurs at least once (twice) occurs at some position (two positions)
pub proof fn lemma_find_rank(cards: Seq<Card>, r: int) -> (i: int)
    requires cnt_rank(cards, r) >= 1,
    ensures 0 <= i < cards.len(), rank_code(cards[i].0) == r,
    decreases cards.len()
{
    if rank_code(cards.last().0) == r { cards.len() - 1 } else { lemma_find_rank(cards.drop_last(), r) }
}

pub proof fn lemma_find_rank2(cards: Seq<Card>, r: int) -> (p: (int, int))
    requires cnt_rank(cards, r) >= 2,
    ensures 0 <= p.0 < p.1 < cards.len(), rank_code(cards[p.0].0) == r, rank_code(cards[p.1].0) == r,
    decreases cards.len()
{
    if rank_code(cards.last().0) == r {
        let i = lemma_find_rank(cards.drop_last(), r);
        (i, cards.len() - 1)
    } else { lemma_find_rank2(cards.drop_last(), r) }
}

pub proof fn lemma_mult_without2(cards: Seq<Card>, i: int, j: int)
    requires 0 <= i < j < cards.len(), cards.len() == 7,
    ensures sub_le(mult(without2(cards, i, j)), mult(cards)), vsum(mult(without2(cards, i, j)), 0) == 5,
{
    let h = without2(cards, i, j);
    assert forall|r: int| 0 <= r < 13 implies #[trigger] mult(h)[r] <= mult(cards)[r] by {
        lemma_without2_counts(cards, i, j, Suit::Spade, r);
        lemma_cnt_nonneg(cards, r, Suit::Spade);
        lemma_cnt_nonneg(h, r, Suit::Spade);
    }
    lemma_without2_counts(cards, i, j, Suit::Spade, 0);
    lemma_rsum_total(h);
    lemma_vsum_mult(h, 0);
}

/// no five of the seven cards share a suit when no suit has five cards
pub proof fn lemma_no_flush_sub(cards: Seq<Card>, i: int, j: int)
    requires 0 <= i < j < cards.len(), cards.len() == 7, forall|s: Suit| cnt_suit(cards, s) < 5,
    ensures !same_suit(without2(cards, i, j)),
{
    let h = without2(cards, i, j);
    if same_suit(h) {
        let s = h[0].1;
        lemma_all_suit(h, s);
        lemma_without2_counts(cards, i, j, s, 0);
    }
}

pub proof fn lemma_all_suit(h: Seq<Card>, s: Suit)
    requires forall|k: int| 0 <= k < h.len() ==> (#[trigger] h[k]).1 == s,
    ensures cnt_suit(h, s) == h.len(),
    decreases h.len()
{
    if h.len() > 0 {
        assert forall|k: int| 0 <= k < h.drop_last().len() implies (#[trigger] h.drop_last()[k]).1 == s by { assert(h.drop_last()[k] == h[k]); }
        lemma_all_suit(h.drop_last(), s);
    }
}

/// C01, first principles, hands without five cards of one suit
pub proof fn lemma_class7_is_best_noflush(cards: Seq<Card>)
    requires cards.len() == 7, distinct_cards(cards), classes_ok(), forall|s: Suit| cnt_suit(cards, s) < 5,
    ensures is_best7(cards, class7(cards)),
{
    let q = mult(cards);
    lemma_mult_ok(cards);
    lemma_rsum_total(cards);
    lemma_vsum_mult(cards, 0);
    assert(class7(cards) == best_of(q, false, 7));
    assert forall|i: int, j: int| 0 <= i < j < 7 implies class7(cards) <= class5_cards(#[trigger] without2(cards, i, j)) by {
        lemma_no_flush_sub(cards, i, j);
        lemma_mult_without2(cards, i, j);
        lemma_best_of_lower(q, mult(without2(cards, i, j)), false, 7);
    }
    let q5 = lemma_best_of_attained(q, false, 7);
    // the two discarded ranks
    lemma_vsum_le(q5, q, 0);
    let a = lemma_find_gap(q5, q, 0);
    let qa = vdec(q, a);
    lemma_vsum_dec(q, a, 0);
    assert(sub_le(q5, qa)) by { assert forall|r: int| 0 <= r < 13 implies #[trigger] q5[r] <= qa[r] by { assert(q5[r] <= q[r]); } }
    lemma_vsum_le(q5, qa, 0);
    let b = lemma_find_gap(q5, qa, 0);
    let qb = vdec(qa, b);
    lemma_vsum_dec(qa, b, 0);
    assert(sub_le(q5, qb)) by { assert forall|r: int| 0 <= r < 13 implies #[trigger] q5[r] <= qb[r] by { assert(q5[r] <= qa[r]); } }
    lemma_vsum_le(q5, qb, 0);
    assert(q5 =~= qb);
    // positions holding those ranks
    lemma_cnt_nonneg(cards, a, Suit::Spade);
    lemma_cnt_nonneg(cards, b, Suit::Spade);
    let (i, j) = if a == b {
        assert(cnt_rank(cards, a) >= 2);
        lemma_find_rank2(cards, a)
    } else {
        let x = lemma_find_rank(cards, a);
        let y = lemma_find_rank(cards, b);
        if x < y { (x, y) } else { (y, x) }
    };
    let h = without2(cards, i, j);
    lemma_no_flush_sub(cards, i, j);
    assert(mult(h) =~= q5) by {
        assert forall|r: int| 0 <= r < 13 implies mult(h)[r] == q5[r] by {
            lemma_without2_counts(cards, i, j, Suit::Spade, r);
            lemma_cnt_nonneg(cards, r, Suit::Spade);
            lemma_cnt_nonneg(h, r, Suit::Spade);
        }
    }
    assert(class7(cards) == class5_cards(without2(cards, i, j)));
}

// ---------- ... and hands with five or more cards of one suit ----------

pub proof fn lemma_first_eq_prop(q: Seq<u8>, v: int, from: int)
    requires q.len() == 13, 0 <= from <= 13,
    ensures from <= first_eq(q, v, from) <= 13,
        first_eq(q, v, from) < 13 ==> q[first_eq(q, v, from)] as int == v,
        first_eq(q, v, from) == 13 ==> forall|i: int| from <= i < 13 ==> q[i] as int != v,
    decreases 13 - from
{
    if from < 13 && q[from] as int != v { lemma_first_eq_prop(q, v, from + 1); }
}

pub proof fn lemma_cnt_full_suit(h: Seq<Card>, s: Suit)
    requires cnt_suit(h, s) == h.len(),
    ensures forall|k: int| 0 <= k < h.len() ==> (#[trigger] h[k]).1 == s,
    decreases h.len()
{
    if h.len() > 0 {
        lemma_cnt_nonneg(h.drop_last(), 0, s);
        lemma_cnt_full_suit(h.drop_last(), s);
        assert forall|k: int| 0 <= k < h.len() implies (#[trigger] h[k]).1 == s by {
            if k < h.len() - 1 { assert(h[k] == h.drop_last()[k]); }
        }
    }
}

pub proof fn lemma_find_card(cards: Seq<Card>, r: int, s: Suit) -> (i: int)
    requires cnt_card(cards, r, s) >= 1,
    ensures 0 <= i < cards.len(), rank_code(cards[i].0) == r, cards[i].1 == s,
    decreases cards.len()
{
    if rank_code(cards.last().0) == r && cards.last().1 == s { cards.len() - 1 } else { lemma_find_card(cards.drop_last(), r, s) }
}

pub proof fn lemma_find_offsuit(cards: Seq<Card>, s: Suit) -> (i: int)
    requires cnt_suit(cards, s) < cards.len(),
    ensures 0 <= i < cards.len(), cards[i].1 != s,
    decreases cards.len()
{
    if cards.last().1 != s { cards.len() - 1 } else { lemma_find_offsuit(cards.drop_last(), s) }
}

pub proof fn lemma_find_offsuit2(cards: Seq<Card>, s: Suit) -> (p: (int, int))
    requires cnt_suit(cards, s) + 2 <= cards.len(),
    ensures 0 <= p.0 < p.1 < cards.len(), cards[p.0].1 != s, cards[p.1].1 != s,
    decreases cards.len()
{
    if cards.last().1 != s {
        let i = lemma_find_offsuit(cards.drop_last(), s);
        (i, cards.len() - 1)
    } else { lemma_find_offsuit2(cards.drop_last(), s) }
}

/// off-suit cards of two different ranks are at most all off-suit cards
pub proof fn lemma_two_off(h: Seq<Card>, s: Suit, a: int, b: int, from: int)
    requires 0 <= from <= 13, from <= a < b < 13,
    ensures (cnt_rank(h, a) - cnt_card(h, a, s)) + (cnt_rank(h, b) - cnt_card(h, b, s)) <= rsum(h, from) - csum(h, s, from),
    decreases 13 - from
{
    lemma_off_nonneg(h, s, from);
    if from < a {
        lemma_two_off(h, s, a, b, from + 1);
    } else {
        lemma_one_off(h, s, b, from + 1);
    }
}

pub proof fn lemma_one_off(h: Seq<Card>, s: Suit, b: int, from: int)
    requires 0 <= from <= b < 13,
    ensures cnt_rank(h, b) - cnt_card(h, b, s) <= rsum(h, from) - csum(h, s, from),
    decreases 13 - from
{
    lemma_off_nonneg(h, s, from);
    if from < b { lemma_one_off(h, s, b, from + 1); } else { lemma_off_sum_nonneg(h, s, from + 1); }
}

pub proof fn lemma_off_nonneg(h: Seq<Card>, s: Suit, r: int)
    ensures cnt_rank(h, r) - cnt_card(h, r, s) >= 0,
    decreases h.len()
{
    if h.len() > 0 { lemma_off_nonneg(h.drop_last(), s, r); }
}

pub proof fn lemma_off_sum_nonneg(h: Seq<Card>, s: Suit, from: int)
    requires 0 <= from <= 13,
    ensures rsum(h, from) - csum(h, s, from) >= 0,
    decreases 13 - from
{
    if from < 13 { lemma_off_sum_nonneg(h, s, from + 1); lemma_off_nonneg(h, s, from); }
}

/// five of seven distinct cards, at most two of them off the suit s, are neither quads nor a full house
pub proof fn lemma_no_quads_fh(h: Seq<Card>, s: Suit)
    requires h.len() == 5, distinct_cards(h), cnt_suit(h, s) >= 3,
    ensures pattern_cat(mult(h), false) != 7, pattern_cat(mult(h), false) != 6,
{
    let q = mult(h);
    lemma_rsum_total(h);
    lemma_csum_total(h, s);
    lemma_first_eq_prop(q, 4, 0);
    lemma_first_eq_prop(q, 3, 0);
    lemma_first_eq_prop(q, 2, 0);
    let four = first_eq(q, 4, 0);
    let three = first_eq(q, 3, 0);
    let two = first_eq(q, 2, 0);
    if four < 13 {
        lemma_cnt_card_distinct(h, four, s);
        lemma_cnt_nonneg(h, four, s);
        lemma_one_off(h, s, four, 0);
    }
    if three < 13 && two < 13 {
        lemma_cnt_card_distinct(h, three, s);
        lemma_cnt_card_distinct(h, two, s);
        lemma_cnt_nonneg(h, three, s);
        lemma_cnt_nonneg(h, two, s);
        if three < two { lemma_two_off(h, s, three, two, 0); } else { lemma_two_off(h, s, two, three, 0); }
    }
}

/// a five-card sub-hand of the flush suit whose rank vector is a prescribed five-subset f5 of the suit's ranks
pub proof fn lemma_flush_pick(cards: Seq<Card>, s: Suit, f5: Seq<u8>) -> (p: (int, int))
    requires cards.len() == 7, distinct_cards(cards), cnt_suit(cards, s) >= 5,
        sub_le(f5, suit_mult(cards, s)), vsum(f5, 0) == 5,
    ensures 0 <= p.0 < p.1 < 7, same_suit(without2(cards, p.0, p.1)), without2(cards, p.0, p.1)[0].1 == s,
        suit_mult(without2(cards, p.0, p.1), s) == f5,
{
    let k = cnt_suit(cards, s);
    let f = suit_mult(cards, s);
    lemma_cnt_suit_total(cards);
    lemma_suit_mult_ok(cards, s);
    lemma_csum_total(cards, s);
    lemma_vsum_suit_mult(cards, s, 0);
    lemma_vsum_le(f5, f, 0);
    let (i, j) = if k == 7 {
        let a = lemma_find_gap(f5, f, 0);
        let fa = vdec(f, a);
        lemma_vsum_dec(f, a, 0);
        assert(sub_le(f5, fa)) by { assert forall|r: int| 0 <= r < 13 implies #[trigger] f5[r] <= fa[r] by { assert(f5[r] <= f[r]); } }
        lemma_vsum_le(f5, fa, 0);
        let b = lemma_find_gap(f5, fa, 0);
        assert(a != b);
        lemma_cnt_nonneg(cards, a, s);
        lemma_cnt_nonneg(cards, b, s);
        let x = lemma_find_card(cards, a, s);
        let y = lemma_find_card(cards, b, s);
        if x < y { (x, y) } else { (y, x) }
    } else if k == 6 {
        let a = lemma_find_gap(f5, f, 0);
        lemma_cnt_nonneg(cards, a, s);
        let x = lemma_find_card(cards, a, s);
        let y = lemma_find_offsuit(cards, s);
        if x < y { (x, y) } else { (y, x) }
    } else {
        lemma_find_offsuit2(cards, s)
    };
    let h = without2(cards, i, j);
    lemma_without2_counts(cards, i, j, s, 0);
    assert(cnt_suit(h, s) == 5);
    lemma_cnt_full_suit(h, s);
    assert(same_suit(h) && h[0].1 == s);
    let hv = suit_mult(h, s);
    lemma_csum_total(h, s);
    lemma_vsum_suit_mult(h, s, 0);
    assert(sub_le(f5, hv)) by {
        assert forall|r: int| 0 <= r < 13 implies #[trigger] f5[r] <= hv[r] by {
            lemma_without2_counts(cards, i, j, s, r);
            lemma_cnt_nonneg(cards, r, s);
            lemma_cnt_nonneg(h, r, s);
            assert(f5[r] <= f[r]);
            assert(0 <= f[r] <= 1);
        }
    }
    lemma_vsum_le(f5, hv, 0);
    assert(hv =~= f5);
    (i, j)
}

/// every five-card sub-hand of a hand with >= 5 cards of suit s is no better than the best suited five
pub proof fn lemma_flush_lower(cards: Seq<Card>, s: Suit, i: int, j: int)
    requires cards.len() == 7, distinct_cards(cards), classes_ok(), cnt_suit(cards, s) >= 5, 0 <= i < j < 7,
    ensures class7(cards) <= class5_cards(without2(cards, i, j)),
{
    let k = cnt_suit(cards, s);
    let f = suit_mult(cards, s);
    lemma_class7_flush(cards, s);
    lemma_cnt_suit_total(cards);
    lemma_suit_mult_ok(cards, s);
    lemma_csum_total(cards, s);
    lemma_vsum_suit_mult(cards, s, 0);
    let h = without2(cards, i, j);
    lemma_without2_distinct(cards, i, j);
    lemma_without2_counts(cards, i, j, s, 0);
    if same_suit(h) {
        let t = h[0].1;
        lemma_all_suit(h, t);
        lemma_without2_counts(cards, i, j, t, 0);
        assert(t == s);
        assert(sub_le(suit_mult(h, s), f)) by {
            assert forall|r: int| 0 <= r < 13 implies #[trigger] suit_mult(h, s)[r] <= f[r] by {
                lemma_without2_counts(cards, i, j, s, r);
                lemma_cnt_nonneg(cards, r, s);
                lemma_cnt_nonneg(h, r, s);
            }
        }
        lemma_csum_total(h, s);
        lemma_vsum_suit_mult(h, s, 0);
        lemma_best_of_lower(f, suit_mult(h, s), true, k);
    } else {
        // the best suited sub-hand is a flush or straight flush (class <= 1599); h is neither, nor quads, nor a full house
        let f5 = lemma_best_of_attained(f, true, k);
        assert(vec_ok(f5, 1)) by { assert forall|r: int| 0 <= r < 13 implies 0 <= #[trigger] f5[r] <= 1 by { assert(f5[r] <= f[r] && 0 <= f[r] <= 1); } }
        assert(class5_slot_ok(f5, true));
        lemma_first_eq_prop(f5, 4, 0);
        lemma_first_eq_prop(f5, 3, 0);
        lemma_first_eq_prop(f5, 2, 0);
        assert(class7(cards) <= 1599);
        lemma_mult_ok(h);
        lemma_rsum_total(h);
        lemma_vsum_mult(h, 0);
        assert(class5_slot_ok(mult(h), false));
        lemma_no_quads_fh(h, s);
    }
}

/// C01, first principles, hands with five or more cards of suit s
pub proof fn lemma_class7_is_best_flush(cards: Seq<Card>, s: Suit)
    requires cards.len() == 7, distinct_cards(cards), classes_ok(), cnt_suit(cards, s) >= 5,
    ensures is_best7(cards, class7(cards)),
{
    let k = cnt_suit(cards, s);
    let f = suit_mult(cards, s);
    lemma_class7_flush(cards, s);
    lemma_cnt_suit_total(cards);
    lemma_suit_mult_ok(cards, s);
    lemma_csum_total(cards, s);
    lemma_vsum_suit_mult(cards, s, 0);
    assert forall|i: int, j: int| 0 <= i < j < 7 implies class7(cards) <= class5_cards(#[trigger] without2(cards, i, j)) by {
        lemma_flush_lower(cards, s, i, j);
    }
    let f5 = lemma_best_of_attained(f, true, k);
    let p = lemma_flush_pick(cards, s, f5);
    assert(class7(cards) == class5_cards(without2(cards, p.0, p.1)));
}

/// C01: for any seven distinct cards, class7 is the class of the best five-card hand they contain
pub proof fn lemma_class7_is_best(cards: Seq<Card>)
    requires cards.len() == 7, distinct_cards(cards), classes_ok(),
    ensures is_best7(cards, class7(cards)),
{
    if exists|s: Suit| cnt_suit(cards, s) >= 5 {
        let s = choose|s: Suit| cnt_suit(cards, s) >= 5;
        lemma_class7_is_best_flush(cards, s);
    } else {
        lemma_class7_is_best_noflush(cards);
    }
}
