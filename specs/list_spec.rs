// ===========================================================================
// Unit LIST (C05, C10 at list level): HandRange::from_str folds the tokens of a comma-separated list.
// Hand-written specification.  The TEXT level is abstracted: what a token string parses to
// (parse_tok), removing blanks (strip_spaces) and splitting at commas (split_commas) are
// uninterpreted; the token parser's contract used here is the one the TOKEN unit establishes
// with Kani (bounded strings) -- see the ASSUMED items in the template.
// ===========================================================================

/// what HandRangeToken::from_str makes of one piece of text (None: rejected)
pub uninterp spec fn parse_tok(s: Seq<char>) -> Option<HandRangeToken>;

/// the text with every ' ' removed
pub uninterp spec fn strip_spaces(s: Seq<char>) -> Seq<char>;

/// the pieces between the commas (one piece for text without a comma)
pub uninterp spec fn split_commas(s: Seq<char>) -> Seq<Seq<char>>;

/// weight in [0, 1] (floats are opaque to Verus; established by Kani in the TOKEN unit)
pub uninterp spec fn unit_interval(p: f32) -> bool;

/// ASSUMED (replaces `s.replace(" ", "")`)
#[verifier::external_body]
pub fn verif_strip_spaces(s: &str) -> (r: String)
    ensures r@ == strip_spaces(s@),
{
    s.replace(" ", "")
}

/// ASSUMED (replaces `trimmed.len() == 0`)
#[verifier::external_body]
pub fn verif_is_empty(s: &String) -> (r: bool)
    ensures r == (s@.len() == 0),
{
    s.len() == 0
}

/// ASSUMED (replaces `trimmed.split(",")`)
#[verifier::external_body]
pub fn verif_split_commas<'a>(s: &'a String) -> (r: Vec<&'a str>)
    ensures r@.len() == split_commas(s@).len(),
        forall|i: int| 0 <= i < r@.len() ==> (#[trigger] r@[i])@ == split_commas(s@)[i],
{
    s.split(",").collect()
}

/// the first n combos of token t written into m, each with the token's weight (later writes win)
pub open spec fn apply_token(m: Map<CardPair, f32>, t: HandRangeToken, n: int) -> Map<CardPair, f32>
    decreases n
{
    if n <= 0 { m } else { apply_token(m, t, n - 1).insert(expand_combos(t)[n - 1], tok_p(t)) }
}

/// the first n pieces of the list folded into the empty range; rejected pieces are skipped
pub open spec fn apply_parts(parts: Seq<Seq<char>>, n: int) -> Map<CardPair, f32>
    decreases n
{
    if n <= 0 { Map::<CardPair, f32>::empty() } else {
        let m = apply_parts(parts, n - 1);
        match parse_tok(parts[n - 1]) {
            Some(t) => apply_token(m, t, expand_combos(t).len() as int),
            None => m,
        }
    }
}

/// C05 at list level: the parsed range
pub open spec fn range_of_text(s: Seq<char>) -> Map<CardPair, f32> {
    let t = strip_spaces(s);
    if t.len() == 0 { Map::<CardPair, f32>::empty() } else { apply_parts(split_commas(t), split_commas(t).len() as int) }
}

/// C10 at list level: every combo of the range is two different cards with a weight in [0, 1]
pub open spec fn range_valid(m: Map<CardPair, f32>) -> bool {
    forall|cp: CardPair| #[trigger] m.contains_key(cp) ==> two_cards(cp) && unit_interval(m[cp])
}

pub proof fn lemma_apply_token_valid(m: Map<CardPair, f32>, t: HandRangeToken, n: int)
    requires range_valid(m), token_wf(t), unit_interval(tok_p(t)), 0 <= n <= expand_combos(t).len(),
    ensures range_valid(apply_token(m, t, n)),
    decreases n
{
    if n > 0 {
        lemma_apply_token_valid(m, t, n - 1);
        lemma_token_distinct(t);
        assert(two_cards(expand_combos(t)[n - 1]));
    }
}

/// "where tokens overlap the later token's weight applies": after a token has been applied, each of its
/// combos carries that token's weight, whatever the range held before
pub proof fn lemma_apply_token_wins(m: Map<CardPair, f32>, t: HandRangeToken, n: int, i: int)
    requires 0 <= i < n <= expand_combos(t).len(),
    ensures apply_token(m, t, n).contains_key(expand_combos(t)[i]), apply_token(m, t, n)[expand_combos(t)[i]] == tok_p(t),
    decreases n
{
    if i < n - 1 { lemma_apply_token_wins(m, t, n - 1, i); }
}

/// ... and combos outside the token keep what they had
pub proof fn lemma_apply_token_frame(m: Map<CardPair, f32>, t: HandRangeToken, n: int, cp: CardPair)
    requires 0 <= n <= expand_combos(t).len(), forall|i: int| 0 <= i < n ==> expand_combos(t)[i] != cp,
    ensures apply_token(m, t, n).contains_key(cp) == m.contains_key(cp), m.contains_key(cp) ==> apply_token(m, t, n)[cp] == m[cp],
    decreases n
{
    if n > 0 { lemma_apply_token_frame(m, t, n - 1, cp); }
}
