// ===========================================================================
// Unit SCOPES (C16): the work splitter of examples/multi-thread.  Hand-written.
// ===========================================================================

pub open spec fn pos_ok(t: int, r: int) -> bool { 0 <= t < r <= 48 }

pub open spec fn pos_or_term(t: int, r: int) -> bool { pos_ok(t, r) || (t == 48 && r == 49) }

pub open spec fn tr_le(t1: int, r1: int, t2: int, r2: int) -> bool { t1 < t2 || (t1 == t2 && r1 <= r2) }

pub open spec fn scope_ok(s: CalculationScope) -> bool {
    &&& pos_or_term(s.turn_from as int, s.river_from as int)
    &&& pos_or_term(s.turn_to as int, s.river_to as int)
    &&& tr_le(s.turn_from as int, s.river_from as int, s.turn_to as int, s.river_to as int)
}

/// C16: the scope list tiles the position line from (0,1) to (48,49)
pub open spec fn tiles(v: Seq<CalculationScope>, count: int) -> bool {
    &&& v.len() == count
    &&& v[0].turn_from == 0 && v[0].river_from == 1
    &&& v[count - 1].turn_to == 48 && v[count - 1].river_to == 49
    &&& forall|k: int| 0 <= k < count ==> scope_ok(#[trigger] v[k])
    &&& forall|k: int| 0 <= k < count - 1 ==> (#[trigger] v[k + 1]).turn_from == v[k].turn_to && v[k + 1].river_from == v[k].river_to
}
