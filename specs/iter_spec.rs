// ===========================================================================
// Unit ITER (C02, C04, C08): positions, successor, legality, stepper contract.
// Hand-written specification.
// ===========================================================================

pub uninterp spec fn f32_mul_spec(a: f32, b: f32) -> f32;

/// R10: f32 product routed through an uninterpreted, deterministic function
#[verifier::external_body]
pub fn f32_mul(a: f32, b: f32) -> (r: f32)
    ensures r == f32_mul_spec(a, b),
{
    a * b
}

pub type Entries = Seq<Seq<(CardPair, f32)>>;

pub open spec fn entries_of(it: FlopExhaustiveEvaluatorIterator) -> Entries {
    Seq::new(it.player_entries@.len(), |i: int| it.player_entries@[i]@)
}

pub open spec fn lens_of(e: Entries) -> Seq<int> {
    Seq::new(e.len(), |i: int| e[i].len() as int)
}

pub open spec fn idx_of(it: FlopExhaustiveEvaluatorIterator) -> Seq<int> {
    Seq::new(it.current_player_indexes@.len(), |i: int| it.current_player_indexes@[i] as int)
}

/// a cursor of the enumeration: turn index, river index, one combo index per player
pub struct Cur {
    pub t: int,
    pub r: int,
    pub idx: Seq<int>,
}

pub open spec fn cur_of(it: FlopExhaustiveEvaluatorIterator) -> Cur {
    Cur { t: it.current_turn_index as int, r: it.current_river_index as int, idx: idx_of(it) }
}

// ---------- board positions ----------

pub open spec fn pos_ok(t: int, r: int) -> bool { 0 <= t < r <= 48 }

pub open spec fn pos_or_term(t: int, r: int) -> bool { pos_ok(t, r) || (t == 48 && r == 49) }

pub open spec fn tr_le(t1: int, r1: int, t2: int, r2: int) -> bool { t1 < t2 || (t1 == t2 && r1 <= r2) }

pub open spec fn tr_succ(t: int, r: int) -> (int, int) { if r < 48 { (t, r + 1) } else { (t + 1, t + 2) } }

/// tr_succ is the immediate successor among positions (incl. the terminal one)
pub proof fn lemma_tr_succ(t: int, r: int, tt: int, rt: int)
    requires pos_ok(t, r), pos_or_term(tt, rt), tr_le(t, r, tt, rt), !(t == tt && r == rt),
    ensures pos_or_term(tr_succ(t, r).0, tr_succ(t, r).1), tr_le(tr_succ(t, r).0, tr_succ(t, r).1, tt, rt),
{
}

// ---------- odometer over the players' combo indexes ----------

pub open spec fn idx_ok(idx: Seq<int>, lens: Seq<int>) -> bool {
    idx.len() == lens.len() && forall|i: int| 0 <= i < idx.len() ==> 0 <= #[trigger] idx[i] < lens[i]
}

/// largest i < n with idx[i] + 1 < lens[i], or -1
pub open spec fn last_inc(idx: Seq<int>, lens: Seq<int>, n: int) -> int
    decreases n
{
    if n <= 0 { -1 } else if idx[n - 1] + 1 < lens[n - 1] { n - 1 } else { last_inc(idx, lens, n - 1) }
}

pub open spec fn zeros(n: int) -> Seq<int> { Seq::new(n as nat, |i: int| 0int) }

pub open spec fn bump(idx: Seq<int>, j: int) -> Seq<int> {
    Seq::new(idx.len(), |i: int| if i < j { idx[i] } else if i == j { idx[j] + 1 } else { 0int })
}

pub open spec fn succ(c: Cur, lens: Seq<int>) -> Cur {
    let j = last_inc(c.idx, lens, c.idx.len() as int);
    if j >= 0 { Cur { t: c.t, r: c.r, idx: bump(c.idx, j) } }
    else { Cur { t: tr_succ(c.t, c.r).0, r: tr_succ(c.t, c.r).1, idx: zeros(c.idx.len() as int) } }
}

pub open spec fn adv(c: Cur, lens: Seq<int>, k: nat) -> Cur
    decreases k
{
    if k == 0 { c } else { succ(adv(c, lens, (k - 1) as nat), lens) }
}

pub proof fn lemma_last_inc(idx: Seq<int>, lens: Seq<int>, n: int)
    requires idx_ok(idx, lens), 0 <= n <= idx.len(),
    ensures -1 <= last_inc(idx, lens, n) < n,
        last_inc(idx, lens, n) >= 0 ==> idx[last_inc(idx, lens, n)] + 1 < lens[last_inc(idx, lens, n)],
        forall|i: int| last_inc(idx, lens, n) < i < n ==> #[trigger] idx[i] + 1 >= lens[i],
    decreases n
{
    if n > 0 && !(idx[n - 1] + 1 < lens[n - 1]) { lemma_last_inc(idx, lens, n - 1); }
}

// ---------- mixed-radix value of the odometer (termination measure, C08) ----------

pub open spec fn radix_prod(lens: Seq<int>, n: int) -> int
    decreases n
{
    if n <= 0 { 1 } else { radix_prod(lens, n - 1) * lens[n - 1] }
}

pub open spec fn radix_val(idx: Seq<int>, lens: Seq<int>, n: int) -> int
    decreases n
{
    if n <= 0 { 0 } else { radix_val(idx, lens, n - 1) * lens[n - 1] + idx[n - 1] }
}

pub proof fn lemma_radix_bound(idx: Seq<int>, lens: Seq<int>, n: int)
    requires idx_ok(idx, lens), 0 <= n <= idx.len(),
    ensures 0 <= radix_val(idx, lens, n) < radix_prod(lens, n), radix_prod(lens, n) >= 1,
    decreases n
{
    if n > 0 {
        lemma_radix_bound(idx, lens, n - 1);
        let v = radix_val(idx, lens, n - 1);
        let p = radix_prod(lens, n - 1);
        let l = lens[n - 1];
        let d = idx[n - 1];
        assert(0 <= d < l);
        assert(v * l + d < p * l && v * l + d >= 0 && p * l >= 1) by (nonlinear_arith)
            requires 0 <= v < p, 0 <= d < l, p >= 1;
    }
}

/// radix value depends only on the first n digits
pub proof fn lemma_radix_ext(a: Seq<int>, b: Seq<int>, lens: Seq<int>, n: int)
    requires 0 <= n <= a.len(), n <= b.len(), forall|i: int| 0 <= i < n ==> a[i] == b[i],
    ensures radix_val(a, lens, n) == radix_val(b, lens, n),
    decreases n
{
    if n > 0 { lemma_radix_ext(a, b, lens, n - 1); }
}

/// bumping digit j (all later digits at their maximum) adds exactly one
pub proof fn lemma_bump_val(idx: Seq<int>, lens: Seq<int>, j: int, n: int)
    requires idx_ok(idx, lens), 0 <= j < n <= idx.len(), idx[j] + 1 < lens[j],
        forall|i: int| j < i < idx.len() ==> #[trigger] idx[i] + 1 >= lens[i],
    ensures radix_val(bump(idx, j), lens, n) == radix_val(idx, lens, n) + 1,
    decreases n
{
    let b = bump(idx, j);
    if n - 1 == j {
        lemma_radix_ext(idx, b, lens, j);
    } else {
        lemma_bump_val(idx, lens, j, n - 1);
        let v = radix_val(idx, lens, n - 1);
        let l = lens[n - 1];
        assert(idx[n - 1] == l - 1);
        assert(b[n - 1] == 0);
        assert((v + 1) * l + 0 == v * l + (l - 1) + 1) by (nonlinear_arith);
    }
}

pub proof fn lemma_bump_ok(idx: Seq<int>, lens: Seq<int>, j: int)
    requires idx_ok(idx, lens), 0 <= j < idx.len(), idx[j] + 1 < lens[j],
    ensures idx_ok(bump(idx, j), lens),
{
    assert forall|i: int| 0 <= i < idx.len() implies 0 <= #[trigger] bump(idx, j)[i] < lens[i] by {
        assert(0 <= idx[i] < lens[i]);
    }
}

// ---------- deals ----------

/// the static part of an iterator: deck, flop, entries
pub struct Game {
    pub deck: Seq<Card>,
    pub flop: Seq<Card>,
    pub entries: Entries,
}

pub open spec fn game_of(it: FlopExhaustiveEvaluatorIterator) -> Game {
    Game {
        deck: it.current_deck@,
        flop: seq![it.current_board@[0].unwrap(), it.current_board@[1].unwrap(), it.current_board@[2].unwrap()],
        entries: entries_of(it),
    }
}

pub open spec fn game_ok(g: Game) -> bool {
    &&& g.deck.len() == 49
    &&& g.flop.len() == 3
    &&& distinct_cards(g.flop)
    &&& distinct_cards(g.deck)
    &&& forall|i: int, j: int| 0 <= i < 49 && 0 <= j < 3 ==> #[trigger] g.deck[i] != #[trigger] g.flop[j]
    &&& forall|i: int, k: int| 0 <= i < g.entries.len() && 0 <= k < g.entries[i].len() ==> (#[trigger] g.entries[i][k]).0.0 != g.entries[i][k].0.1
}

pub open spec fn board_at(g: Game, c: Cur) -> Seq<Card> {
    seq![g.flop[0], g.flop[1], g.flop[2], g.deck[c.t], g.deck[c.r]]
}

pub open spec fn combos_at(g: Game, c: Cur) -> Seq<CardPair> {
    Seq::new(g.entries.len(), |i: int| g.entries[i][c.idx[i]].0)
}

pub open spec fn prob_at(g: Game, c: Cur, n: int) -> f32
    decreases n
{
    if n <= 0 { 1.0f32 } else { f32_mul_spec(prob_at(g, c, n - 1), g.entries[n - 1][c.idx[n - 1]].1) }
}

/// cards in use after the first n players have been dealt (turn and river first)
pub open spec fn used_at(g: Game, c: Cur, n: int) -> Set<Card>
    decreases n
{
    if n <= 0 { set![g.deck[c.t], g.deck[c.r]] }
    else { used_at(g, c, n - 1).insert(g.entries[n - 1][c.idx[n - 1]].0.0).insert(g.entries[n - 1][c.idx[n - 1]].0.1) }
}

/// no player among the first n holds the turn, the river or an earlier player's card
pub open spec fn mat_at(g: Game, c: Cur, n: int) -> bool
    decreases n
{
    if n <= 0 { true } else {
        mat_at(g, c, n - 1)
            && !used_at(g, c, n - 1).contains(g.entries[n - 1][c.idx[n - 1]].0.0)
            && !used_at(g, c, n - 1).contains(g.entries[n - 1][c.idx[n - 1]].0.1)
    }
}

/// the deal at cursor c exists: all 5 + 2n cards are pairwise different
pub open spec fn legal(g: Game, c: Cur) -> bool {
    mat_at(g, c, g.entries.len() as int) && !collides(combos_at(g, c), board_at(g, c))
}

pub open spec fn cur_ok(g: Game, c: Cur) -> bool {
    pos_ok(c.t, c.r) && idx_ok(c.idx, lens_of(g.entries))
}

/// cursors a, succ(a), ..., succ^(k-1)(a) are inside the scope and none of them is a legal deal
pub open spec fn skipped(g: Game, a: Cur, k: nat, tt: int, rt: int) -> bool {
    forall|j: nat| j < k ==> {
        let c = #[trigger] adv(a, lens_of(g.entries), j);
        !(c.t == tt && c.r == rt) && cur_ok(g, c) && !legal(g, c)
    }
}

// ---------- well-formedness of the iterator state ----------

pub open spec fn wf(it: FlopExhaustiveEvaluatorIterator) -> bool {
    &&& it.current_board@[0] is Some && it.current_board@[1] is Some && it.current_board@[2] is Some
    &&& it.current_board@[3] is None && it.current_board@[4] is None
    &&& game_ok(game_of(it))
    &&& it.current_player_indexes@.len() == it.player_entries@.len()
    &&& forall|i: int| 0 <= i < it.player_entries@.len() ==> (#[trigger] it.player_entries@[i])@.len() > 0 ==> it.current_player_indexes@[i] < it.player_entries@[i]@.len()
    &&& it.current_used_cards@ == Set::<Card>::empty()
    &&& pos_or_term(it.turn_to as int, it.river_to as int)
    &&& pos_or_term(it.current_turn_index as int, it.current_river_index as int)
    &&& tr_le(it.current_turn_index as int, it.current_river_index as int, it.turn_to as int, it.river_to as int)
}

pub open spec fn some_empty(e: Entries) -> bool {
    exists|i: int| 0 <= i < e.len() && (#[trigger] e[i]).len() == 0
}

/// frame: everything fixed at construction time is unchanged
pub open spec fn same_game(a: FlopExhaustiveEvaluatorIterator, b: FlopExhaustiveEvaluatorIterator) -> bool {
    &&& a.turn_to == b.turn_to && a.river_to == b.river_to
    &&& a.player_entries == b.player_entries
    &&& a.current_deck == b.current_deck
    &&& a.current_board@[0] == b.current_board@[0] && a.current_board@[1] == b.current_board@[1] && a.current_board@[2] == b.current_board@[2]
}

/// the stepper contract of next() (DESIGN.md C02/C04)
pub open spec fn next_post(old_it: FlopExhaustiveEvaluatorIterator, new_it: FlopExhaustiveEvaluatorIterator, res: Option<Showdown>) -> bool {
    let g = game_of(old_it);
    let lens = lens_of(g.entries);
    let a = cur_of(old_it);
    let tt = old_it.turn_to as int;
    let rt = old_it.river_to as int;
    &&& wf(new_it)
    &&& same_game(old_it, new_it)
    &&& match res {
        Some(sd) => exists|k: nat| {
            let c = adv(a, lens, k);
            &&& #[trigger] skipped(g, a, k, tt, rt)
            &&& !(c.t == tt && c.r == rt) && cur_ok(g, c) && legal(g, c)
            &&& is_showdown_of(sd, combos_at(g, c), board_at(g, c), prob_at(g, c, g.entries.len() as int))
            &&& cur_of(new_it) == succ(c, lens)
        },
        None => some_empty(g.entries) && cur_of(new_it) == a || exists|k: nat| {
            let c = adv(a, lens, k);
            &&& #[trigger] skipped(g, a, k, tt, rt)
            &&& c.t == tt && c.r == rt
            &&& cur_of(new_it) == c
        },
    }
}

/// ghost context of next(): names for the parts of the entry state
pub open spec fn ctx(it0: FlopExhaustiveEvaluatorIterator, g: Game, lens: Seq<int>, a: Cur, tt: int, rt: int, np: int) -> bool {
    &&& g == game_of(it0) && lens == lens_of(g.entries) && a == cur_of(it0)
    &&& tt == it0.turn_to as int && rt == it0.river_to as int && np == it0.player_entries@.len()
    &&& wf(it0) && tables_ok()
}

/// ghost context of one pass of the main loop: s1 is the state after turn/river were put on the board
pub open spec fn inner_ctx(it0: FlopExhaustiveEvaluatorIterator, s1: FlopExhaustiveEvaluatorIterator, g: Game, lens: Seq<int>, c: Cur, np: int) -> bool {
    &&& same_game(it0, s1)
    &&& s1.current_player_indexes@.len() == np && s1.player_entries@.len() == np
    &&& c.t == s1.current_turn_index as int && c.r == s1.current_river_index as int && c.idx == idx_of(s1)
    &&& pos_ok(c.t, c.r) && idx_ok(c.idx, lens)
}

// ---------- the evaluator object and the iterator constructor ----------

pub open spec fn evaluator_ok(e: FlopExhaustiveEvaluator) -> bool {
    &&& e.board@[0] is Some && e.board@[1] is Some && e.board@[2] is Some && e.board@[3] is None && e.board@[4] is None
    &&& e.board@[0] != e.board@[1] && e.board@[0] != e.board@[2] && e.board@[1] != e.board@[2]
    &&& pos_or_term(e.turn_from as int, e.river_from as int) && pos_or_term(e.turn_to as int, e.river_to as int)
    &&& tr_le(e.turn_from as int, e.river_from as int, e.turn_to as int, e.river_to as int)
    &&& forall|i: int, cp: CardPair| 0 <= i < e.players@.len() && #[trigger] e.players@[i].0@.contains_key(cp) ==> cp.0 != cp.1
}

/// the 49 cards not on the flop, in card-code order (ace to deuce; within a rank spade, heart, diamond, club)
pub open spec fn deck_is_unseen(deck: Seq<Card>, flop: Seq<Card>) -> bool {
    &&& deck.len() == 49
    &&& forall|i: int, j: int| 0 <= i < j < 49 ==> card_code(#[trigger] deck[i]) < card_code(#[trigger] deck[j])
    &&& forall|c: Card| #[trigger] in_seq(c, deck) <==> !in_seq(c, flop)
}

pub open spec fn in_seq(c: Card, s: Seq<Card>) -> bool { exists|i: int| 0 <= i < s.len() && #[trigger] s[i] == c }

/// entries list every combo of the range exactly once, with its weight
pub open spec fn is_listing(entries: Seq<(CardPair, f32)>, m: Map<CardPair, f32>) -> bool {
    &&& forall|k: int| 0 <= k < entries.len() ==> m.contains_key((#[trigger] entries[k]).0) && m[entries[k].0] == entries[k].1
    &&& forall|k: int, l: int| 0 <= k < l < entries.len() ==> (#[trigger] entries[k]).0 != (#[trigger] entries[l]).0
    &&& forall|cp: CardPair| m.contains_key(cp) ==> exists|k: int| 0 <= k < entries.len() && (#[trigger] entries[k]).0 == cp
}

/// ASSUMED postcondition of the iterator constructor (pinned to a fingerprint of its source text)
pub open spec fn constructed_from(it: FlopExhaustiveEvaluatorIterator, e: FlopExhaustiveEvaluator) -> bool {
    &&& wf(it)
    &&& it.turn_to == e.turn_to && it.river_to == e.river_to
    &&& it.current_turn_index == e.turn_from && it.current_river_index == e.river_from
    &&& it.current_board@[0] == e.board@[0] && it.current_board@[1] == e.board@[1] && it.current_board@[2] == e.board@[2]
    &&& deck_is_unseen(it.current_deck@, game_of(it).flop)
    &&& it.player_entries@.len() == e.players@.len()
    &&& forall|i: int| 0 <= i < e.players@.len() ==> is_listing(#[trigger] it.player_entries@[i]@, e.players@[i].0@)
    &&& forall|i: int| 0 <= i < it.current_player_indexes@.len() ==> #[trigger] it.current_player_indexes@[i] == 0
}

// ---------- meaning of `legal`: all 5 + 2n cards of the deal are pairwise different ----------

/// hole cards of the first n players, in player order
pub open spec fn holes_at(g: Game, c: Cur, n: int) -> Seq<Card>
    decreases n
{
    if n <= 0 { Seq::empty() } else {
        holes_at(g, c, n - 1).push(g.entries[n - 1][c.idx[n - 1]].0.0).push(g.entries[n - 1][c.idx[n - 1]].0.1)
    }
}

/// the 5 + 2n cards of the deal: flop, turn, river, then the hole cards in player order
pub open spec fn deal_cards(g: Game, c: Cur) -> Seq<Card> {
    board_at(g, c) + holes_at(g, c, g.entries.len() as int)
}

pub proof fn lemma_distinct_push2(s: Seq<Card>, a: Card, b: Card)
    ensures distinct_cards(s.push(a).push(b)) <==> (distinct_cards(s) && !s.contains(a) && !s.contains(b) && a != b),
{
    let t = s.push(a).push(b);
    if distinct_cards(t) {
        assert forall|i: int, j: int| 0 <= i < j < s.len() implies s[i] != s[j] by { assert(t[i] == s[i] && t[j] == s[j]); }
        if s.contains(a) { let i = choose|i: int| 0 <= i < s.len() && s[i] == a; assert(t[i] == a && t[s.len() as int] == a); }
        if s.contains(b) { let i = choose|i: int| 0 <= i < s.len() && s[i] == b; assert(t[i] == b && t[s.len() as int + 1] == b); }
        assert(t[s.len() as int] == a && t[s.len() as int + 1] == b);
    }
    if distinct_cards(s) && !s.contains(a) && !s.contains(b) && a != b {
        assert forall|i: int, j: int| 0 <= i < j < t.len() implies t[i] != t[j] by {
            if j < s.len() { assert(t[i] == s[i] && t[j] == s[j]); }
            else if i < s.len() { assert(t[i] == s[i]); assert(s.contains(s[i])); }
        }
    }
}

pub proof fn lemma_used_is_holes(g: Game, c: Cur, n: int, x: Card)
    requires 0 <= n,
    ensures used_at(g, c, n).contains(x) <==> (x == g.deck[c.t] || x == g.deck[c.r] || holes_at(g, c, n).contains(x)),
    decreases n
{
    if n > 0 {
        lemma_used_is_holes(g, c, n - 1, x);
        let h = holes_at(g, c, n - 1);
        let e0 = g.entries[n - 1][c.idx[n - 1]].0.0;
        let e1 = g.entries[n - 1][c.idx[n - 1]].0.1;
        let h2 = h.push(e0).push(e1);
        assert(h2.contains(x) <==> (h.contains(x) || x == e0 || x == e1)) by {
            if h.contains(x) { let i = choose|i: int| 0 <= i < h.len() && h[i] == x; assert(h2[i] == x); }
            assert(h2[h.len() as int] == e0 && h2[h.len() as int + 1] == e1);
            if h2.contains(x) { let i = choose|i: int| 0 <= i < h2.len() && h2[i] == x; if i < h.len() { assert(h[i] == x); } }
        }
    } else {
        assert(!holes_at(g, c, 0).contains(x));
    }
}

/// mat_at(n) <==> turn, river and the first n players' hole cards are pairwise different
pub proof fn lemma_mat_distinct(g: Game, c: Cur, n: int)
    requires 0 <= n <= g.entries.len(), game_ok(g), cur_ok(g, c),
    ensures mat_at(g, c, n) <==> distinct_cards(seq![g.deck[c.t], g.deck[c.r]] + holes_at(g, c, n)),
    decreases n
{
    let tr = seq![g.deck[c.t], g.deck[c.r]];
    if n == 0 {
        assert(tr + holes_at(g, c, 0) =~= tr);
        assert(g.deck[c.t] != g.deck[c.r]);
    } else {
        lemma_mat_distinct(g, c, n - 1);
        let h = holes_at(g, c, n - 1);
        let e0 = g.entries[n - 1][c.idx[n - 1]].0.0;
        let e1 = g.entries[n - 1][c.idx[n - 1]].0.1;
        assert(0 <= c.idx[n - 1] < lens_of(g.entries)[n - 1]);
        assert(e0 != e1);
        let s = tr + h;
        assert(tr + holes_at(g, c, n) =~= s.push(e0).push(e1));
        lemma_distinct_push2(s, e0, e1);
        lemma_used_is_holes(g, c, n - 1, e0);
        lemma_used_is_holes(g, c, n - 1, e1);
        assert forall|x: Card| s.contains(x) <==> (x == g.deck[c.t] || x == g.deck[c.r] || h.contains(x)) by {
            if h.contains(x) { let i = choose|i: int| 0 <= i < h.len() && h[i] == x; assert(s[i + 2] == x); }
            assert(s[0] == g.deck[c.t] && s[1] == g.deck[c.r]);
            if s.contains(x) { let i = choose|i: int| 0 <= i < s.len() && s[i] == x; if i >= 2 { assert(h[i - 2] == x); } }
        }
    }
}

/// C02: the code's materialisation test is exactly "all 5 + 2n cards are pairwise different"
pub proof fn lemma_legal_distinct(g: Game, c: Cur)
    requires game_ok(g), cur_ok(g, c),
    ensures legal(g, c) <==> distinct_cards(deal_cards(g, c)),
{
    let n = g.entries.len() as int;
    let b = board_at(g, c);
    let h = holes_at(g, c, n);
    let tr = seq![g.deck[c.t], g.deck[c.r]];
    let all = deal_cards(g, c);
    lemma_mat_distinct(g, c, n);
    lemma_holes_combos(g, c, n);
    // a hole card on the board: on the flop, or equal to turn / river
    assert(collides(combos_at(g, c), b) <==> exists|k: int, j: int| 0 <= k < h.len() && 0 <= j < 5 && h[k] == b[j]) by {
        if collides(combos_at(g, c), b) {
            let i = choose|i: int| 0 <= i < combos_at(g, c).len() && (on_board(#[trigger] combos_at(g, c)[i].0, b) || on_board(combos_at(g, c)[i].1, b));
            if on_board(combos_at(g, c)[i].0, b) {
                let j = choose|j: int| 0 <= j < b.len() && b[j] == combos_at(g, c)[i].0;
                assert(h[2 * i] == b[j]);
            } else {
                let j = choose|j: int| 0 <= j < b.len() && b[j] == combos_at(g, c)[i].1;
                assert(h[2 * i + 1] == b[j]);
            }
        }
        if exists|k: int, j: int| 0 <= k < h.len() && 0 <= j < 5 && h[k] == b[j] {
            let (k, j) = choose|k: int, j: int| 0 <= k < h.len() && 0 <= j < 5 && h[k] == b[j];
            let i = k / 2;
            assert(0 <= i < n);
            if k % 2 == 0 { assert(h[2 * i] == combos_at(g, c)[i].0); assert(on_board(combos_at(g, c)[i].0, b)); }
            else { assert(h[2 * i + 1] == combos_at(g, c)[i].1); assert(on_board(combos_at(g, c)[i].1, b)); }
        }
    }
    assert(distinct_cards(b)) by {
        assert forall|x: int, y: int| 0 <= x < y < b.len() implies b[x] != b[y] by {
            if y <= 2 { assert(b[x] == g.flop[x] && b[y] == g.flop[y]); }
            else if x <= 2 { assert(b[x] == g.flop[x]); assert(g.deck[c.t] != g.flop[x] && g.deck[c.r] != g.flop[x]); }
            else { assert(g.deck[c.t] != g.deck[c.r]); }
        }
    }
    let th = tr + h;
    if legal(g, c) {
        assert forall|x: int, y: int| 0 <= x < y < all.len() implies all[x] != all[y] by {
            if y < 5 { assert(all[x] == b[x] && all[y] == b[y]); }
            else if x < 5 { assert(all[x] == b[x] && all[y] == h[y - 5]); }
            else { assert(all[x] == th[x - 3] && all[y] == th[y - 3]); }
        }
    }
    if distinct_cards(all) {
        assert forall|x: int, y: int| 0 <= x < y < th.len() implies th[x] != th[y] by {
            assert(th[x] == all[x + 3] && th[y] == all[y + 3]);
        }
        assert forall|k: int, j: int| 0 <= k < h.len() && 0 <= j < 5 implies h[k] != b[j] by {
            assert(all[j] == b[j] && all[5 + k] == h[k]);
        }
    }
}

pub proof fn lemma_holes_combos(g: Game, c: Cur, n: int)
    requires 0 <= n <= g.entries.len(),
    ensures holes_at(g, c, n).len() == 2 * n,
        forall|i: int| 0 <= i < n ==> holes_at(g, c, n)[2 * i] == g.entries[i][c.idx[i]].0.0 && holes_at(g, c, n)[2 * i + 1] == g.entries[i][c.idx[i]].0.1,
    decreases n
{
    if n > 0 { lemma_holes_combos(g, c, n - 1); }
}

// ---------- rank of a cursor: succ is +1, so the orbit never revisits and has a known length ----------

/// number of board positions (t', r') with t' < t
pub open spec fn tri(t: int) -> int
    decreases t
{
    if t <= 0 { 0 } else { tri(t - 1) + (48 - (t - 1)) }
}

/// index of board position (t, r) in lexicographic order: (0,1) -> 0, ..., (47,48) -> 1175, terminal (48,49) -> 1176
pub open spec fn tr_index(t: int, r: int) -> int { tri(t) + (r - t - 1) }

pub proof fn lemma_tr_index_succ(t: int, r: int)
    requires pos_ok(t, r),
    ensures tr_index(tr_succ(t, r).0, tr_succ(t, r).1) == tr_index(t, r) + 1,
{
    if r >= 48 { assert(tri(t + 1) == tri(t) + (48 - t)); }
}

pub proof fn lemma_tri_1176()
    ensures tr_index(0, 1) == 0, tr_index(48, 49) == 1176,
{
    assert(tri(48) == 1176) by (compute);
    assert(tri(0) == 0) by (compute);
}

pub open spec fn cur_rank(c: Cur, lens: Seq<int>) -> int {
    tr_index(c.t, c.r) * radix_prod(lens, lens.len() as int) + radix_val(c.idx, lens, lens.len() as int)
}

/// all digits at their maximum <==> the odometer value is the largest one
pub proof fn lemma_radix_max(idx: Seq<int>, lens: Seq<int>, n: int)
    requires idx_ok(idx, lens), 0 <= n <= idx.len(), forall|i: int| 0 <= i < n ==> #[trigger] idx[i] + 1 >= lens[i],
    ensures radix_val(idx, lens, n) == radix_prod(lens, n) - 1,
    decreases n
{
    if n > 0 {
        lemma_radix_max(idx, lens, n - 1);
        let v = radix_val(idx, lens, n - 1);
        let p = radix_prod(lens, n - 1);
        let l = lens[n - 1];
        assert(idx[n - 1] == l - 1);
        assert((p - 1) * l + (l - 1) == p * l - 1) by (nonlinear_arith);
    }
}

pub proof fn lemma_radix_zeros(lens: Seq<int>, n: int)
    requires 0 <= n <= lens.len(),
    ensures radix_val(zeros(lens.len() as int), lens, n) == 0,
    decreases n
{
    if n > 0 {
        lemma_radix_zeros(lens, n - 1);
        assert(zeros(lens.len() as int)[n - 1] == 0);
        assert(0 * lens[n - 1] == 0) by (nonlinear_arith);
    }
}

/// C02 "exactly once": one step of the enumeration raises the rank by exactly one, so the orbit of succ is
/// strictly increasing (no cursor is visited twice) and reaches the scope end after
/// cur_rank(end) - cur_rank(start) steps -- as many as there are cursors in between
pub proof fn lemma_succ_rank(c: Cur, lens: Seq<int>)
    requires pos_ok(c.t, c.r), idx_ok(c.idx, lens),
    ensures cur_rank(succ(c, lens), lens) == cur_rank(c, lens) + 1,
{
    let n = lens.len() as int;
    let j = last_inc(c.idx, lens, n);
    lemma_last_inc(c.idx, lens, n);
    if j >= 0 {
        lemma_bump_val(c.idx, lens, j, n);
    } else {
        lemma_radix_max(c.idx, lens, n);
        lemma_radix_zeros(lens, n);
        lemma_tr_index_succ(c.t, c.r);
        let m = radix_prod(lens, n);
        let ti = tr_index(c.t, c.r);
        assert((ti + 1) * m + 0 == ti * m + (m - 1) + 1) by (nonlinear_arith);
    }
}

pub proof fn lemma_adv_rank(a: Cur, lens: Seq<int>, k: nat, g: Game, tt: int, rt: int)
    requires lens == lens_of(g.entries), cur_ok(g, a) || (a.t == tt && a.r == rt), skipped_or_visited(g, a, k, tt, rt),
    ensures cur_rank(adv(a, lens, k), lens) == cur_rank(a, lens) + k,
    decreases k
{
    if k > 0 {
        let km = (k - 1) as nat;
        assert(skipped_or_visited(g, a, km, tt, rt));
        lemma_adv_rank(a, lens, km, g, tt, rt);
        let c = adv(a, lens, km);
        assert(cur_ok(g, c));
        lemma_succ_rank(c, lens);
    }
}

/// cursors a, succ(a), ..., succ^(k-1)(a) are valid cursors inside the scope (legal or not)
pub open spec fn skipped_or_visited(g: Game, a: Cur, k: nat, tt: int, rt: int) -> bool {
    forall|j: nat| j < k ==> {
        let c = #[trigger] adv(a, lens_of(g.entries), j);
        !(c.t == tt && c.r == rt) && cur_ok(g, c)
    }
}

// ---------- cur_rank is injective on valid cursors: every cursor of the scope is visited exactly once ----------

pub proof fn lemma_div_unique(x: int, d: int, y: int, e: int, l: int)
    requires 0 <= d < l, 0 <= e < l, x * l + d == y * l + e,
    ensures x == y, d == e,
{
    assert(x == y) by (nonlinear_arith) requires 0 <= d < l, 0 <= e < l, x * l + d == y * l + e;
    assert(d == e) by (nonlinear_arith) requires x == y, x * l + d == y * l + e;
}

pub proof fn lemma_radix_inj(a: Seq<int>, b: Seq<int>, lens: Seq<int>, n: int)
    requires idx_ok(a, lens), idx_ok(b, lens), 0 <= n <= lens.len(), radix_val(a, lens, n) == radix_val(b, lens, n),
    ensures forall|i: int| 0 <= i < n ==> a[i] == b[i],
    decreases n
{
    if n > 0 {
        assert(0 <= a[n - 1] < lens[n - 1] && 0 <= b[n - 1] < lens[n - 1]);
        lemma_div_unique(radix_val(a, lens, n - 1), a[n - 1], radix_val(b, lens, n - 1), b[n - 1], lens[n - 1]);
        lemma_radix_inj(a, b, lens, n - 1);
    }
}

pub proof fn lemma_tri_mono(t1: int, t2: int)
    requires 0 <= t1 <= t2 <= 48,
    ensures tri(t1) <= tri(t2),
    decreases t2 - t1
{
    if t1 < t2 {
        lemma_tri_mono(t1, t2 - 1);
    }
}

/// positions are ordered by their index: a smaller turn means a strictly smaller index
pub proof fn lemma_tr_index_lt(t1: int, r1: int, t2: int, r2: int)
    requires pos_ok(t1, r1), pos_ok(t2, r2), t1 < t2,
    ensures tr_index(t1, r1) < tr_index(t2, r2),
{
    // tr_index(t1, r1) <= tri(t1) + (48 - t1 - 1) = tri(t1 + 1) - 1 < tri(t1 + 1) <= tri(t2) <= tr_index(t2, r2)
    assert(tri(t1 + 1) == tri(t1) + (48 - t1));
    lemma_tri_mono(t1 + 1, t2);
}

pub proof fn lemma_tr_index_inj(t1: int, r1: int, t2: int, r2: int)
    requires pos_ok(t1, r1), pos_ok(t2, r2), tr_index(t1, r1) == tr_index(t2, r2),
    ensures t1 == t2, r1 == r2,
{
    if t1 < t2 { lemma_tr_index_lt(t1, r1, t2, r2); }
    if t2 < t1 { lemma_tr_index_lt(t2, r2, t1, r1); }
}

pub proof fn lemma_cur_rank_inj(p: Cur, q: Cur, lens: Seq<int>)
    requires pos_ok(p.t, p.r), pos_ok(q.t, q.r), idx_ok(p.idx, lens), idx_ok(q.idx, lens), cur_rank(p, lens) == cur_rank(q, lens),
    ensures p == q,
{
    let n = lens.len() as int;
    let m = radix_prod(lens, n);
    lemma_radix_bound(p.idx, lens, n);
    lemma_radix_bound(q.idx, lens, n);
    lemma_div_unique(tr_index(p.t, p.r), radix_val(p.idx, lens, n), tr_index(q.t, q.r), radix_val(q.idx, lens, n), m);
    lemma_tr_index_inj(p.t, p.r, q.t, q.r);
    lemma_radix_inj(p.idx, q.idx, lens, n);
    assert(p.idx =~= q.idx);
}

/// C02 / C04 "every deal exactly once": if the orbit of succ from a runs for k steps inside the scope,
/// then every valid cursor q whose rank lies in [rank(a), rank(a) + k) is one of those k cursors, at
/// position rank(q) - rank(a), and no cursor occurs twice
pub proof fn lemma_orbit_covers(g: Game, a: Cur, k: nat, tt: int, rt: int, q: Cur)
    requires cur_ok(g, a) || (a.t == tt && a.r == rt), skipped_or_visited(g, a, k, tt, rt), cur_ok(g, q),
        cur_rank(a, lens_of(g.entries)) <= cur_rank(q, lens_of(g.entries)) < cur_rank(a, lens_of(g.entries)) + k,
    ensures q == adv(a, lens_of(g.entries), (cur_rank(q, lens_of(g.entries)) - cur_rank(a, lens_of(g.entries))) as nat),
{
    let lens = lens_of(g.entries);
    let j = (cur_rank(q, lens) - cur_rank(a, lens)) as nat;
    assert(skipped_or_visited(g, a, j, tt, rt));
    lemma_adv_rank(a, lens, j, g, tt, rt);
    let c = adv(a, lens, j);
    assert(cur_ok(g, c));
    lemma_cur_rank_inj(c, q, lens);
}

// ---------- the iterator constructor: deck = the 49 cards not on the flop, in code order ----------

pub open spec fn card_of_code(n: int) -> Card { Card(rank_of_code(n / 4), suit_of_code(n % 4)) }

pub proof fn lemma_card_codes(c: Card)
    ensures 0 <= card_code(c) < 52, card_of_code(card_code(c)) == c,
{
}

pub proof fn lemma_code_cards(n: int)
    requires 0 <= n < 52,
    ensures card_code(card_of_code(n)) == n,
{
}

/// cards with code < n that are not on the flop, in code order
pub open spec fn unseen_prefix(flop: Seq<Card>, n: int) -> Seq<Card>
    decreases n
{
    if n <= 0 { Seq::empty() } else if in_seq(card_of_code(n - 1), flop) { unseen_prefix(flop, n - 1) } else { unseen_prefix(flop, n - 1).push(card_of_code(n - 1)) }
}

/// number of flop cards with code < n
pub open spec fn cnt_below(flop: Seq<Card>, n: int, k: int) -> int
    decreases k
{
    if k <= 0 { 0 } else { cnt_below(flop, n, k - 1) + if card_code(flop[k - 1]) < n { 1int } else { 0int } }
}

pub proof fn lemma_cnt_below_step(flop: Seq<Card>, n: int, k: int)
    requires 0 <= k <= flop.len(), 0 <= n < 52, distinct_cards(flop),
    ensures cnt_below(flop, n + 1, k) == cnt_below(flop, n, k) + if exists|j: int| 0 <= j < k && flop[j] == card_of_code(n) { 1int } else { 0int },
    decreases k
{
    if k > 0 {
        lemma_cnt_below_step(flop, n, k - 1);
        lemma_card_codes(flop[k - 1]);
        lemma_code_cards(n);
        if flop[k - 1] == card_of_code(n) {
            assert(!(exists|j: int| 0 <= j < k - 1 && flop[j] == card_of_code(n))) by {
                if exists|j: int| 0 <= j < k - 1 && flop[j] == card_of_code(n) {
                    let j = choose|j: int| 0 <= j < k - 1 && flop[j] == card_of_code(n);
                    assert(flop[j] == flop[k - 1]);
                }
            }
        } else {
            assert(card_code(flop[k - 1]) != n);
            if exists|j: int| 0 <= j < k && flop[j] == card_of_code(n) {
                let j = choose|j: int| 0 <= j < k && flop[j] == card_of_code(n);
                assert(j < k - 1);
            }
        }
    }
}

pub proof fn lemma_cnt_below_zero(flop: Seq<Card>, k: int)
    requires 0 <= k <= flop.len(),
    ensures cnt_below(flop, 0, k) == 0,
    decreases k
{
    if k > 0 { lemma_cnt_below_zero(flop, k - 1); lemma_card_codes(flop[k - 1]); }
}

pub proof fn lemma_unseen_prefix(flop: Seq<Card>, n: int)
    requires 0 <= n <= 52, distinct_cards(flop),
    ensures
        unseen_prefix(flop, n).len() == n - cnt_below(flop, n, flop.len() as int),
        forall|i: int| 0 <= i < unseen_prefix(flop, n).len() ==> card_code(#[trigger] unseen_prefix(flop, n)[i]) < n && !in_seq(unseen_prefix(flop, n)[i], flop),
        forall|i: int, j: int| 0 <= i < j < unseen_prefix(flop, n).len() ==> card_code(#[trigger] unseen_prefix(flop, n)[i]) < card_code(#[trigger] unseen_prefix(flop, n)[j]),
        forall|c: Card| card_code(c) < n && !in_seq(c, flop) ==> #[trigger] in_seq(c, unseen_prefix(flop, n)),
    decreases n
{
    if n > 0 {
        lemma_unseen_prefix(flop, n - 1);
        lemma_cnt_below_step(flop, n - 1, flop.len() as int);
        lemma_code_cards(n - 1);
        let p = unseen_prefix(flop, n - 1);
        let q = unseen_prefix(flop, n);
        let c0 = card_of_code(n - 1);
        assert(in_seq(c0, flop) <==> exists|j: int| 0 <= j < flop.len() && flop[j] == c0);
        assert forall|c: Card| card_code(c) < n && !in_seq(c, flop) implies #[trigger] in_seq(c, q) by {
            lemma_card_codes(c);
            if card_code(c) < n - 1 {
                assert(in_seq(c, p));
                let i = choose|i: int| 0 <= i < p.len() && p[i] == c;
                assert(q[i] == c);
            } else {
                assert(c == c0);
                assert(q[q.len() - 1] == c0);
            }
        }
        if !in_seq(c0, flop) {
            assert forall|i: int, j: int| 0 <= i < j < q.len() implies card_code(#[trigger] q[i]) < card_code(#[trigger] q[j]) by {
                if j < p.len() { assert(q[i] == p[i] && q[j] == p[j]); } else { assert(q[i] == p[i]); }
            }
        }
    } else {
        lemma_cnt_below_zero(flop, flop.len() as int);
    }
}

pub proof fn lemma_cnt_below_all(flop: Seq<Card>, k: int)
    requires 0 <= k <= flop.len(),
    ensures cnt_below(flop, 52, k) == k,
    decreases k
{
    if k > 0 { lemma_cnt_below_all(flop, k - 1); lemma_card_codes(flop[k - 1]); }
}

/// with three distinct flop cards the full prefix is the deck the enumeration needs
pub proof fn lemma_unseen_deck(flop: Seq<Card>)
    requires flop.len() == 3, distinct_cards(flop),
    ensures deck_is_unseen(unseen_prefix(flop, 52), flop),
{
    lemma_unseen_prefix(flop, 52);
    lemma_cnt_below_all(flop, 3);
    let d = unseen_prefix(flop, 52);
    assert forall|c: Card| #[trigger] in_seq(c, d) <==> !in_seq(c, flop) by {
        lemma_card_codes(c);
        if in_seq(c, d) { let i = choose|i: int| 0 <= i < d.len() && d[i] == c; assert(!in_seq(d[i], flop)); }
    }
}

/// the combos of one range, listed from a HashMap iteration
pub open spec fn listed_prefix(entries: Seq<(CardPair, f32)>, kvs: Seq<(&CardPair, &f32)>, n: int) -> bool {
    entries.len() == n && forall|k: int| 0 <= k < n ==> #[trigger] entries[k] == (*kvs[k].0, *kvs[k].1)
}

pub proof fn lemma_listing(entries: Seq<(CardPair, f32)>, kvs: Seq<(&CardPair, &f32)>, m: Map<CardPair, f32>)
    requires
        listed_prefix(entries, kvs, kvs.len() as int), kvs.no_duplicates(),
        forall|j: int| 0 <= j < kvs.len() ==> m.contains_key(*(#[trigger] kvs[j]).0) && m[*kvs[j].0] == *kvs[j].1,
        forall|k: CardPair| m.contains_key(k) ==> exists|j: int| 0 <= j < kvs.len() && *(#[trigger] kvs[j]).0 == k,
    ensures is_listing(entries, m),
{
    assert forall|k: int, l: int| 0 <= k < l < entries.len() implies (#[trigger] entries[k]).0 != (#[trigger] entries[l]).0 by {
        if entries[k].0 == entries[l].0 {
            assert(m[*kvs[k].0] == *kvs[k].1 && m[*kvs[l].0] == *kvs[l].1);
            assert(kvs[k] == kvs[l]);
        }
    }
    assert forall|cp: CardPair| m.contains_key(cp) implies exists|k: int| 0 <= k < entries.len() && (#[trigger] entries[k]).0 == cp by {
        let j = choose|j: int| 0 <= j < kvs.len() && *(#[trigger] kvs[j]).0 == cp;
        assert(entries[j].0 == cp);
    }
}

pub proof fn lemma_listing_if_done(entries: Seq<(CardPair, f32)>, kvs: Seq<(&CardPair, &f32)>, m: Map<CardPair, f32>, n: int)
    requires
        listed_prefix(entries, kvs, n), kvs.no_duplicates(), 0 <= n <= kvs.len(),
        forall|j: int| 0 <= j < kvs.len() ==> m.contains_key(*(#[trigger] kvs[j]).0) && m[*kvs[j].0] == *kvs[j].1,
        forall|k: CardPair| m.contains_key(k) ==> exists|j: int| 0 <= j < kvs.len() && *(#[trigger] kvs[j]).0 == k,
    ensures n == kvs.len() ==> is_listing(entries, m),
{
    if n == kvs.len() { lemma_listing(entries, kvs, m); }
}

pub proof fn lemma_deck_game(deck: Seq<Card>, flop: Seq<Card>)
    requires deck_is_unseen(deck, flop), flop.len() == 3,
    ensures distinct_cards(deck), forall|i: int, j: int| 0 <= i < 49 && 0 <= j < 3 ==> #[trigger] deck[i] != #[trigger] flop[j],
{
    assert forall|i: int, j: int| 0 <= i < j < deck.len() implies deck[i] != deck[j] by {
        assert(card_code(deck[i]) < card_code(deck[j]));
    }
    assert forall|i: int, j: int| 0 <= i < 49 && 0 <= j < 3 implies #[trigger] deck[i] != #[trigger] flop[j] by {
        assert(in_seq(deck[i], deck));
        if deck[i] == flop[j] { assert(in_seq(deck[i], flop)); }
    }
}
