// ===========================================================================
// Unit RANGE (C12): decomposition of a range into complete rank pairs and leftovers.  Hand-written.
// ===========================================================================

/// IEEE `==` on f32 as an uninterpreted, deterministic relation (floats are not modelled)
pub uninterp spec fn f32_eq_spec(a: f32, b: f32) -> bool;

/// R16: `a == b` on f32 routed through f32_eq (Verus gives the built-in `==` on floats no meaning)
#[verifier::external_body]
pub fn f32_eq(a: f32, b: f32) -> (r: bool)
    ensures r == f32_eq_spec(a, b),
{
    a == b
}

pub type RangeMap = Map<CardPair, f32>;

/// rank pairs the decomposition looks at: any pocket pair; suited / offsuit with the high card first
pub open spec fn valid_rp(rp: RankPair) -> bool {
    match rp {
        RankPair::Pocket(_) => true,
        RankPair::Suited(h, k) => rank_code(h) < rank_code(k),
        RankPair::Ofsuit(h, k) => rank_code(h) < rank_code(k),
    }
}

/// all 6 / 4 / 12 combos of rp are present and carry a weight equal to the first combo's weight
pub open spec fn complete(m: RangeMap, rp: RankPair) -> bool {
    let cs = combos_seq(rp);
    forall|i: int| 0 <= i < cs.len() ==> m.contains_key(#[trigger] cs[i]) && f32_eq_spec(m[cs[i]], m[cs[0]])
}

/// C12, first view: exactly the complete rank pairs, each with the common weight
pub open spec fn is_rank_pairs_of(r: Map<RankPair, f32>, m: RangeMap) -> bool {
    &&& forall|rp: RankPair| #[trigger] r.contains_key(rp) <==> valid_rp(rp) && complete(m, rp)
    &&& forall|rp: RankPair| #[trigger] r.contains_key(rp) ==> r[rp] == m[combos_seq(rp)[0]]
}

pub open spec fn covered(r: Map<RankPair, f32>, cp: CardPair) -> bool {
    exists|rp: RankPair| #[trigger] r.contains_key(rp) && combos_seq(rp).contains(cp)
}

/// C12, second view: exactly the combos not covered by a reported rank pair, with their own weights
pub open spec fn is_orphans_of(o: RangeMap, r: Map<RankPair, f32>, m: RangeMap) -> bool {
    &&& forall|cp: CardPair| #[trigger] o.contains_key(cp) <==> m.contains_key(cp) && !covered(r, cp)
    &&& forall|cp: CardPair| #[trigger] o.contains_key(cp) ==> o[cp] == m[cp]
}

/// together the two views cover every combo of the range exactly once
pub proof fn lemma_partition(o: RangeMap, r: Map<RankPair, f32>, m: RangeMap)
    requires is_rank_pairs_of(r, m), is_orphans_of(o, r, m),
    ensures forall|cp: CardPair| m.contains_key(cp) <==> (o.contains_key(cp) || covered(r, cp)),
        forall|cp: CardPair| !(o.contains_key(cp) && covered(r, cp)),
{
    assert forall|cp: CardPair| covered(r, cp) implies m.contains_key(cp) by {
        let rp = choose|rp: RankPair| #[trigger] r.contains_key(rp) && combos_seq(rp).contains(cp);
        let cs = combos_seq(rp);
        let i = choose|i: int| 0 <= i < cs.len() && cs[i] == cp;
        assert(complete(m, rp));
        assert(m.contains_key(cs[i]));
    }
}

/// rank pairs already examined by the loops of rank_pairs(): phase 0 = pockets with code < a;
/// phase 1 = all pockets, plus suited/offsuit (h,k) with (h,k) lexicographically below (a,b)
pub open spec fn examined(rp: RankPair, phase: int, a: int, b: int, su: bool, of: bool) -> bool {
    match rp {
        RankPair::Pocket(r) => phase >= 1 || rank_code(r) < a,
        RankPair::Suited(h, k) => phase >= 1 && rank_code(h) < rank_code(k) && (rank_code(h) < a || (rank_code(h) == a && (rank_code(k) < b || (rank_code(k) == b && su)))),
        RankPair::Ofsuit(h, k) => phase >= 1 && rank_code(h) < rank_code(k) && (rank_code(h) < a || (rank_code(h) == a && (rank_code(k) < b || (rank_code(k) == b && of)))),
    }
}

pub open spec fn partial_rank_pairs(r: Map<RankPair, f32>, m: RangeMap, phase: int, a: int, b: int, su: bool, of: bool) -> bool {
    &&& forall|rp: RankPair| #[trigger] r.contains_key(rp) <==> valid_rp(rp) && examined(rp, phase, a, b, su, of) && complete(m, rp)
    &&& forall|rp: RankPair| #[trigger] r.contains_key(rp) ==> r[rp] == m[combos_seq(rp)[0]]
}

/// some rank pair among the first n yielded by the map iterator lists combo cp
pub open spec fn removed_upto(kvs: Seq<(&RankPair, &f32)>, n: int, cp: CardPair) -> bool {
    exists|j: int| 0 <= j < n && 0 <= j < kvs.len() && combos_seq(*(#[trigger] kvs[j]).0).contains(cp)
}

pub open spec fn minus_upto(c: RangeMap, m: RangeMap, kvs: Seq<(&RankPair, &f32)>, n: int) -> bool {
    &&& forall|cp: CardPair| #[trigger] c.contains_key(cp) <==> m.contains_key(cp) && !removed_upto(kvs, n, cp)
    &&& forall|cp: CardPair| #[trigger] c.contains_key(cp) ==> c[cp] == m[cp]
}

pub open spec fn minus_seq(c: RangeMap, c0: RangeMap, cs: Seq<CardPair>, n: int) -> bool {
    &&& forall|cp: CardPair| #[trigger] c.contains_key(cp) <==> c0.contains_key(cp) && !(exists|i: int| 0 <= i < n && 0 <= i < cs.len() && cs[i] == cp)
    &&& forall|cp: CardPair| #[trigger] c.contains_key(cp) ==> c[cp] == c0[cp]
}

pub proof fn lemma_covered_all(rps: Map<RankPair, f32>, kvs: Seq<(&RankPair, &f32)>)
    requires
        forall|j: int| 0 <= j < kvs.len() ==> rps.contains_key(*(#[trigger] kvs[j]).0),
        forall|rp: RankPair| rps.contains_key(rp) ==> exists|j: int| 0 <= j < kvs.len() && *(#[trigger] kvs[j]).0 == rp,
    ensures
        forall|cp: CardPair| covered(rps, cp) <==> removed_upto(kvs, kvs.len() as int, cp),
{
    assert forall|cp: CardPair| covered(rps, cp) <==> removed_upto(kvs, kvs.len() as int, cp) by {
        if covered(rps, cp) {
            let rp = choose|rp: RankPair| #[trigger] rps.contains_key(rp) && combos_seq(rp).contains(cp);
            let j = choose|j: int| 0 <= j < kvs.len() && *(#[trigger] kvs[j]).0 == rp;
            assert(combos_seq(*kvs[j].0).contains(cp));
        }
        if removed_upto(kvs, kvs.len() as int, cp) {
            let j = choose|j: int| 0 <= j < kvs.len() && combos_seq(*(#[trigger] kvs[j]).0).contains(cp);
            assert(rps.contains_key(*kvs[j].0));
        }
    }
}
