// ===========================================================================
// Unit SHOWDOWN (C03): specification of a showdown.  Hand-written.
// class7 / tables_ok are C01's vocabulary; here they are abstract.
// ===========================================================================

pub uninterp spec fn class7(cards: Seq<Card>) -> int;
pub uninterp spec fn tables_ok() -> bool;

/// the seven cards of one player, in the order the evaluator receives them
pub open spec fn hand_of(p: CardPair, board: Seq<Card>) -> Seq<Card> {
    seq![p.0, p.1, board[0], board[1], board[2], board[3], board[4]]
}

pub open spec fn on_board(c: Card, board: Seq<Card>) -> bool {
    exists|k: int| 0 <= k < board.len() && board[k] == c
}

pub open spec fn collides(players: Seq<CardPair>, board: Seq<Card>) -> bool {
    exists|i: int| 0 <= i < players.len() && (on_board(#[trigger] players[i].0, board) || on_board(players[i].1, board))
}

pub open spec fn strength(p: CardPair, board: Seq<Card>) -> int { class7(hand_of(p, board)) }

/// the whole-view postcondition of Showdown::new
pub open spec fn is_showdown_of(sd: Showdown, players: Seq<CardPair>, board: Seq<Card>, probability: f32) -> bool {
    &&& sd.board@ == board
    &&& sd.probability == probability
    &&& sd.players@.len() == players.len()
    &&& forall|i: int| 0 <= i < players.len() ==> {
        &&& (#[trigger] sd.players@[i]).hole_cards == players[i]
        &&& sd.players@[i].board@ == board
        &&& sd.players@[i].hand.0 as int == strength(players[i], board)
        &&& (sd.players@[i].win <==> forall|j: int| 0 <= j < players.len() ==> strength(#[trigger] players[j], board) >= strength(players[i], board))
    }
}

pub open spec fn win_count(ps: Seq<ShowdownPlayer>) -> int
    decreases ps.len()
{
    if ps.len() == 0 { 0 } else { win_count(ps.drop_last()) + if ps.last().win { 1int } else { 0int } }
}

pub proof fn lemma_win_count_bounds(ps: Seq<ShowdownPlayer>)
    ensures 0 <= win_count(ps) <= ps.len(),
    decreases ps.len()
{
    if ps.len() > 0 { lemma_win_count_bounds(ps.drop_last()); }
}

pub proof fn lemma_win_count_pos(ps: Seq<ShowdownPlayer>, i: int)
    requires 0 <= i < ps.len(), ps[i].win,
    ensures win_count(ps) >= 1,
    decreases ps.len()
{
    lemma_win_count_bounds(ps.drop_last());
    if i < ps.len() - 1 { lemma_win_count_pos(ps.drop_last(), i); }
}

/// some player attains the minimum of finitely many strengths
pub proof fn lemma_min_exists(players: Seq<CardPair>, board: Seq<Card>, n: int) -> (m: int)
    requires 1 <= n <= players.len(),
    ensures 0 <= m < n, forall|j: int| 0 <= j < n ==> strength(#[trigger] players[j], board) >= strength(players[m], board),
    decreases n
{
    if n == 1 { 0 } else {
        let m0 = lemma_min_exists(players, board, n - 1);
        if strength(players[n - 1], board) < strength(players[m0], board) { n - 1 } else { m0 }
    }
}

/// C03: with at least one player, at least one winner is flagged
pub proof fn lemma_some_winner(sd: Showdown, players: Seq<CardPair>, board: Seq<Card>, probability: f32)
    requires is_showdown_of(sd, players, board, probability), players.len() >= 1,
    ensures win_count(sd.players@) >= 1,
{
    let m = lemma_min_exists(players, board, players.len() as int);
    assert(sd.players@[m].win);
    lemma_win_count_pos(sd.players@, m);
}

// ---------- C11 (L11b): winner flags depend on the strengths only, and follow the players ----------

/// pi maps positions of the second line-up to positions of the first; strengths agree along pi
pub open spec fn strengths_follow(ps1: Seq<CardPair>, b1: Seq<Card>, ps2: Seq<CardPair>, b2: Seq<Card>, pi: spec_fn(int) -> int, inv: spec_fn(int) -> int) -> bool {
    &&& ps1.len() == ps2.len()
    &&& forall|i: int| 0 <= i < ps2.len() ==> 0 <= #[trigger] pi(i) < ps1.len() && inv(pi(i)) == i
    &&& forall|j: int| 0 <= j < ps1.len() ==> 0 <= #[trigger] inv(j) < ps2.len() && pi(inv(j)) == j
    &&& forall|i: int| 0 <= i < ps2.len() ==> strength(#[trigger] ps2[i], b2) == strength(ps1[pi(i)], b1)
}

/// relabelled suits (pi = identity) leave every flag unchanged; reordered players take their flags along
pub proof fn lemma_flags_follow(sd1: Showdown, ps1: Seq<CardPair>, b1: Seq<Card>, p1: f32,
                                sd2: Showdown, ps2: Seq<CardPair>, b2: Seq<Card>, p2: f32,
                                pi: spec_fn(int) -> int, inv: spec_fn(int) -> int)
    requires is_showdown_of(sd1, ps1, b1, p1), is_showdown_of(sd2, ps2, b2, p2), strengths_follow(ps1, b1, ps2, b2, pi, inv),
    ensures forall|i: int| 0 <= i < ps2.len() ==> (#[trigger] sd2.players@[i]).win == sd1.players@[pi(i)].win,
{
    assert forall|i: int| 0 <= i < ps2.len() implies (#[trigger] sd2.players@[i]).win == sd1.players@[pi(i)].win by {
        let k = pi(i);
        if sd1.players@[k].win {
            assert forall|j: int| 0 <= j < ps2.len() implies strength(#[trigger] ps2[j], b2) >= strength(ps2[i], b2) by {
                assert(strength(ps1[pi(j)], b1) >= strength(ps1[k], b1));
            }
        }
        if sd2.players@[i].win {
            assert forall|j: int| 0 <= j < ps1.len() implies strength(#[trigger] ps1[j], b1) >= strength(ps1[k], b1) by {
                assert(strength(ps2[inv(j)], b2) >= strength(ps2[i], b2));
                assert(pi(inv(j)) == j);
            }
        }
    }
}
