// ===========================================================================
// Unit SHOWDOWN (C03): specification of a showdown.  Hand-written.
// class7 / tables_ok are C01's vocabulary; here they are abstract.
// ===========================================================================

pub uninterp spec fn class7(cards: Seq<Card>) -> int;
pub uninterp spec fn tables_ok() -> bool;

/// the seven cards of one player, in the order the evaluator receives them
pub open spec fn hand_of(p: CardPair, board: Seq<Card>) -> Seq<Card> {
    seq![p.0, p.1, board[0], board[1], board[2], board[3], board[4]]
}

pub open spec fn on_board(c: Card, board: Seq<Card>) -> bool {
    exists|k: int| 0 <= k < board.len() && board[k] == c
}

pub open spec fn collides(players: Seq<CardPair>, board: Seq<Card>) -> bool {
    exists|i: int| 0 <= i < players.len() && (on_board(#[trigger] players[i].0, board) || on_board(players[i].1, board))
}

pub open spec fn strength(p: CardPair, board: Seq<Card>) -> int { class7(hand_of(p, board)) }

/// the whole-view postcondition of Showdown::new
pub open spec fn is_showdown_of(sd: Showdown, players: Seq<CardPair>, board: Seq<Card>, probability: f32) -> bool {
    &&& sd.board@ == board
    &&& sd.probability == probability
    &&& sd.players@.len() == players.len()
    &&& forall|i: int| 0 <= i < players.len() ==> {
        &&& (#[trigger] sd.players@[i]).hole_cards == players[i]
        &&& sd.players@[i].board@ == board
        &&& sd.players@[i].hand.0 as int == strength(players[i], board)
        &&& (sd.players@[i].win <==> forall|j: int| 0 <= j < players.len() ==> strength(#[trigger] players[j], board) >= strength(players[i], board))
    }
}

pub open spec fn win_count(ps: Seq<ShowdownPlayer>) -> int
    decreases ps.len()
{
    if ps.len() == 0 { 0 } else { win_count(ps.drop_last()) + if ps.last().win { 1int } else { 0int } }
}

pub proof fn lemma_win_count_bounds(ps: Seq<ShowdownPlayer>)
    ensures 0 <= win_count(ps) <= ps.len(),
    decreases ps.len()
{
    if ps.len() > 0 { lemma_win_count_bounds(ps.drop_last()); }
}

pub proof fn lemma_win_count_pos(ps: Seq<ShowdownPlayer>, i: int)
    requires 0 <= i < ps.len(), ps[i].win,
    ensures win_count(ps) >= 1,
    decreases ps.len()
{
    lemma_win_count_bounds(ps.drop_last());
    if i < ps.len() - 1 { lemma_win_count_pos(ps.drop_last(), i); }
}

/// some player attains the minimum of finitely many strengths
pub proof fn lemma_min_exists(players: Seq<CardPair>, board: Seq<Card>, n: int) -> (m: int)
    requires 1 <= n <= players.len(),
    ensures 0 <= m < n, forall|j: int| 0 <= j < n ==> strength(#[trigger] players[j], board) >= strength(players[m], board),
    decreases n
{
    if n == 1 { 0 } else {
        let m0 = lemma_min_exists(players, board, n - 1);
        if strength(players[n - 1], board) < strength(players[m0], board) { n - 1 } else { m0 }
    }
}

/// C03: with at least one player, at least one winner is flagged
pub proof fn lemma_some_winner(sd: Showdown, players: Seq<CardPair>, board: Seq<Card>, probability: f32)
    requires is_showdown_of(sd, players, board, probability), players.len() >= 1,
    ensures win_count(sd.players@) >= 1,
{
    let m = lemma_min_exists(players, board, players.len() as int);
    assert(sd.players@[m].win);
    lemma_win_count_pos(sd.players@, m);
}

// ---------- C11 (L11b): winner flags depend on the strengths only, and follow the players ----------

/// pi maps positions of the second line-up to positions of the first; strengths agree along pi
pub open spec fn strengths_follow(ps1: Seq<CardPair>, b1: Seq<Card>, ps2: Seq<CardPair>, b2: Seq<Card>, pi: spec_fn(int) -> int, inv: spec_fn(int) -> int) -> bool {
    &&& ps1.len() == ps2.len()
    &&& forall|i: int| 0 <= i < ps2.len() ==> 0 <= #[trigger] pi(i) < ps1.len() && inv(pi(i)) == i
    &&& forall|j: int| 0 <= j < ps1.len() ==> 0 <= #[trigger] inv(j) < ps2.len() && pi(inv(j)) == j
    &&& forall|i: int| 0 <= i < ps2.len() ==> strength(#[trigger] ps2[i], b2) == strength(ps1[pi(i)], b1)
}

/// relabelled suits (pi = identity) leave every flag unchanged; reordered players take their flags along
pub proof fn lemma_flags_follow(sd1: Showdown, ps1: Seq<CardPair>, b1: Seq<Card>, p1: f32,
                                sd2: Showdown, ps2: Seq<CardPair>, b2: Seq<Card>, p2: f32,
                                pi: spec_fn(int) -> int, inv: spec_fn(int) -> int)
    requires is_showdown_of(sd1, ps1, b1, p1), is_showdown_of(sd2, ps2, b2, p2), strengths_follow(ps1, b1, ps2, b2, pi, inv),
    ensures forall|i: int| 0 <= i < ps2.len() ==> (#[trigger] sd2.players@[i]).win == sd1.players@[pi(i)].win,
{
    assert forall|i: int| 0 <= i < ps2.len() implies (#[trigger] sd2.players@[i]).win == sd1.players@[pi(i)].win by {
        let k = pi(i);
        if sd1.players@[k].win {
            assert forall|j: int| 0 <= j < ps2.len() implies strength(#[trigger] ps2[j], b2) >= strength(ps2[i], b2) by {
                assert(strength(ps1[pi(j)], b1) >= strength(ps1[k], b1));
            }
        }
        if sd2.players@[i].win {
            assert forall|j: int| 0 <= j < ps1.len() implies strength(#[trigger] ps1[j], b1) >= strength(ps1[k], b1) by {
                assert(strength(ps2[inv(j)], b2) >= strength(ps2[i], b2));
                assert(pi(inv(j)) == j);
            }
        }
    }
}

// ---------- C11 (counting step): equal per-deal outcomes along an injective re-indexing give equal tallies ----------

pub open spec fn count_true(f: Seq<bool>) -> int
    decreases f.len()
{
    if f.len() == 0 { 0 } else { count_true(f.drop_last()) + if f.last() { 1int } else { 0int } }
}

/// player p is flagged in a showdown with exactly k winners (k == 1: outright win, k > 1: k-way tie)
pub open spec fn hit(f: Seq<bool>, p: int, k: int) -> bool { 0 <= p < f.len() && f[p] && count_true(f) == k }

/// the tally of player p over a run: the number of showdowns (flag vectors) in which p is one of exactly k winners
pub open spec fn tally(outs: Seq<Seq<bool>>, p: int, k: int) -> int
    decreases outs.len()
{
    if outs.len() == 0 { 0 } else { tally(outs.drop_last(), p, k) + if hit(outs.last(), p, k) { 1int } else { 0int } }
}

pub proof fn lemma_tally_remove(outs: Seq<Seq<bool>>, j: int, p: int, k: int)
    requires 0 <= j < outs.len(),
    ensures tally(outs, p, k) == tally(outs.remove(j), p, k) + if hit(outs[j], p, k) { 1int } else { 0int },
    decreases outs.len()
{
    if j == outs.len() - 1 {
        assert(outs.remove(j) =~= outs.drop_last());
    } else {
        lemma_tally_remove(outs.drop_last(), j, p, k);
        assert(outs.remove(j).drop_last() =~= outs.drop_last().remove(j));
        assert(outs.remove(j).last() == outs.last());
    }
}

/// two runs of equal length; phi sends the i-th showdown of the first to a showdown of the second, injectively, and the
/// two agree on "player p1 / p2 is one of exactly k winners": then the tallies agree.  (An injective map between two
/// runs of the same length is a bijection; only injectivity is used.)
pub proof fn lemma_tally_rearranged(o1: Seq<Seq<bool>>, o2: Seq<Seq<bool>>, phi: spec_fn(int) -> int, p1: int, p2: int, k: int)
    requires
        o1.len() == o2.len(),
        forall|i: int| 0 <= i < o1.len() ==> 0 <= #[trigger] phi(i) < o2.len(),
        forall|a: int, b: int| 0 <= a < b < o1.len() ==> #[trigger] phi(a) != #[trigger] phi(b),
        forall|i: int| 0 <= i < o1.len() ==> hit(o2[#[trigger] phi(i)], p2, k) == hit(o1[i], p1, k),
    ensures tally(o2, p2, k) == tally(o1, p1, k),
    decreases o1.len()
{
    if o1.len() > 0 {
        let n = o1.len() as int;
        let j = phi(n - 1);
        let psi = |i: int| if phi(i) < j { phi(i) } else { phi(i) - 1 };
        let a1 = o1.drop_last();
        let a2 = o2.remove(j);
        assert forall|i: int| 0 <= i < a1.len() implies 0 <= #[trigger] psi(i) < a2.len() by {
            assert(phi(i) != phi(n - 1));
        }
        assert forall|a: int, b: int| 0 <= a < b < a1.len() implies #[trigger] psi(a) != #[trigger] psi(b) by {
            assert(phi(a) != phi(b));
            assert(phi(a) != j && phi(b) != j);
        }
        assert forall|i: int| 0 <= i < a1.len() implies hit(a2[#[trigger] psi(i)], p2, k) == hit(a1[i], p1, k) by {
            assert(phi(i) != phi(n - 1));
            assert(a2[psi(i)] == o2[phi(i)]);
            assert(a1[i] == o1[i]);
        }
        lemma_tally_rearranged(a1, a2, psi, p1, p2, k);
        lemma_tally_remove(o2, j, p2, k);
        assert(hit(o2[phi(n - 1)], p2, k) == hit(o1[n - 1], p1, k));
    }
}

/// count_true is invariant under re-indexing the players (f2[i] == f1[pi(i)], pi injective into the same length)
pub proof fn lemma_count_remove(f: Seq<bool>, j: int)
    requires 0 <= j < f.len(),
    ensures count_true(f) == count_true(f.remove(j)) + if f[j] { 1int } else { 0int },
    decreases f.len()
{
    if j == f.len() - 1 {
        assert(f.remove(j) =~= f.drop_last());
    } else {
        lemma_count_remove(f.drop_last(), j);
        assert(f.remove(j).drop_last() =~= f.drop_last().remove(j));
        assert(f.remove(j).last() == f.last());
    }
}

pub proof fn lemma_count_perm(f1: Seq<bool>, f2: Seq<bool>, pi: spec_fn(int) -> int)
    requires
        f1.len() == f2.len(),
        forall|i: int| 0 <= i < f2.len() ==> 0 <= #[trigger] pi(i) < f1.len(),
        forall|a: int, b: int| 0 <= a < b < f2.len() ==> #[trigger] pi(a) != #[trigger] pi(b),
        forall|i: int| 0 <= i < f2.len() ==> f2[i] == f1[#[trigger] pi(i)],
    ensures count_true(f2) == count_true(f1),
    decreases f2.len()
{
    if f2.len() > 0 {
        let n = f2.len() as int;
        let j = pi(n - 1);
        let psi = |i: int| if pi(i) < j { pi(i) } else { pi(i) - 1 };
        let a2 = f2.drop_last();
        let a1 = f1.remove(j);
        assert forall|i: int| 0 <= i < a2.len() implies 0 <= #[trigger] psi(i) < a1.len() by {
            assert(pi(i) != pi(n - 1));
        }
        assert forall|a: int, b: int| 0 <= a < b < a2.len() implies #[trigger] psi(a) != #[trigger] psi(b) by {
            assert(pi(a) != pi(b));
            assert(pi(a) != j && pi(b) != j);
        }
        assert forall|i: int| 0 <= i < a2.len() implies a2[i] == a1[#[trigger] psi(i)] by {
            assert(pi(i) != pi(n - 1));
            assert(a1[psi(i)] == f1[pi(i)]);
            assert(a2[i] == f2[i]);
        }
        lemma_count_perm(a1, a2, psi);
        lemma_count_remove(f1, j);
        assert(f2[n - 1] == f1[pi(n - 1)]);
    }
}

/// the flag vector of a showdown, and its number of winners
pub open spec fn flags_of(ps: Seq<ShowdownPlayer>) -> Seq<bool> { Seq::new(ps.len(), |i: int| ps[i].win) }

pub proof fn lemma_count_is_win_count(ps: Seq<ShowdownPlayer>)
    ensures count_true(flags_of(ps)) == win_count(ps),
    decreases ps.len()
{
    if ps.len() > 0 {
        lemma_count_is_win_count(ps.drop_last());
        assert(flags_of(ps).drop_last() =~= flags_of(ps.drop_last()));
        assert(flags_of(ps).last() == ps.last().win);
    }
}

/// L11b + counting inside one showdown: under strengths_follow (suit relabelling: pi = identity; reordered players: pi
/// their permutation) player i of the second showdown is one of exactly k winners iff player pi(i) of the first is
pub proof fn lemma_hit_follows(sd1: Showdown, ps1: Seq<CardPair>, b1: Seq<Card>, pr1: f32,
                               sd2: Showdown, ps2: Seq<CardPair>, b2: Seq<Card>, pr2: f32,
                               pi: spec_fn(int) -> int, inv: spec_fn(int) -> int, i: int, k: int)
    requires is_showdown_of(sd1, ps1, b1, pr1), is_showdown_of(sd2, ps2, b2, pr2), strengths_follow(ps1, b1, ps2, b2, pi, inv), 0 <= i < ps2.len(),
    ensures hit(flags_of(sd2.players@), i, k) == hit(flags_of(sd1.players@), pi(i), k),
{
    lemma_flags_follow(sd1, ps1, b1, pr1, sd2, ps2, b2, pr2, pi, inv);
    let f1 = flags_of(sd1.players@);
    let f2 = flags_of(sd2.players@);
    assert forall|a: int, b: int| 0 <= a < b < f2.len() implies #[trigger] pi(a) != #[trigger] pi(b) by {
        assert(inv(pi(a)) == a && inv(pi(b)) == b);
    }
    assert forall|j: int| 0 <= j < f2.len() implies f2[j] == f1[#[trigger] pi(j)] by {
        assert(sd2.players@[j].win == sd1.players@[pi(j)].win);
    }
    lemma_count_perm(f1, f2, pi);
}
