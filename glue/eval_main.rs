// ---------------------------------------------------------------------------
// Unverified glue (outside verus!): command line of the compiled unit.
//   eval check                      run the verified table checker on the extracted constants
//   eval witness <mode> <shard> <n> failing-input search (only used after an obligation failed):
//                                   compares the extracted real `MadeHand::from` / `hand_type`
//                                   with the verified exec twins of the spec.
// ---------------------------------------------------------------------------
fn card_of(code: usize) -> Card {
    Card::new(rank_of_code((code / 4) as u8), match code % 4 { 0 => Suit::Spade, 1 => Suit::Heart, 2 => Suit::Diamond, _ => Suit::Club })
}

fn code_of(c: &Card) -> usize { (u8::from(c.rank()) as usize) * 4 + u8::from(c.suit()) as usize }

fn name_of(code: usize) -> String {
    let r = ['A', 'K', 'Q', 'J', 'T', '9', '8', '7', '6', '5', '4', '3', '2'][code / 4];
    let s = ['s', 'h', 'd', 'c'][code % 4];
    format!("{}{}", r, s)
}

struct Oracle { t: Tbl, memo: std::collections::HashMap<(u64, bool), i64> }

impl Oracle {
    fn class7(&mut self, codes: &[usize; 7]) -> i64 {
        let mut sc = [0usize; 4];
        for c in codes { sc[c % 4] += 1; }
        let mut q = [0u8; 13];
        let mut flush = false;
        let mut n = 7i64;
        if let Some(s) = (0..4).find(|s| sc[*s] >= 5) {
            for c in codes { if c % 4 == s { q[c / 4] += 1; } }
            flush = true;
            n = sc[s] as i64;
        } else {
            for c in codes { q[c / 4] += 1; }
        }
        let mut key = 0u64;
        for x in q.iter() { key = key * 5 + *x as u64; }
        if let Some(v) = self.memo.get(&(key, flush)) { return *v; }
        let v = best_of_exec(&self.t, &mut q, flush, n);
        self.memo.insert((key, flush), v);
        v
    }
}

fn type_code(t: MadeHandType) -> i64 {
    match t {
        MadeHandType::HighCard => 0, MadeHandType::Pair => 1, MadeHandType::TwoPair => 2, MadeHandType::Trips => 3,
        MadeHandType::Straight => 4, MadeHandType::Flush => 5, MadeHandType::FullHouse => 6, MadeHandType::Quads => 7,
        MadeHandType::StraightFlush => 8,
    }
}

/// returns true when a mismatch was found (and printed)
fn try_hand(o: &mut Oracle, codes: &[usize; 7], found: &mut usize) -> bool {
    let cards: [Card; 7] = [card_of(codes[0]), card_of(codes[1]), card_of(codes[2]), card_of(codes[3]), card_of(codes[4]), card_of(codes[5]), card_of(codes[6])];
    let want = o.class7(codes);
    let res = std::panic::catch_unwind(|| { let h = MadeHand::from(cards); (h.power_index() as i64, type_code(h.hand_type())) });
    let names: Vec<String> = codes.iter().map(|c| name_of(*c)).collect();
    match res {
        Ok((got, ty)) => {
            if got != want {
                println!("WITNESS kind=index cards={} got={} want={}", names.join(","), got, want);
                *found += 1;
                return true;
            }
            let wc = category_exec(want);
            if ty != wc {
                println!("WITNESS kind=category cards={} index={} got={} want={}", names.join(","), got, ty, wc);
                *found += 1;
                return true;
            }
            false
        }
        Err(_) => {
            println!("WITNESS kind=panic cards={} want={}", names.join(","), want);
            *found += 1;
            true
        }
    }
}

fn orders(codes: &[usize; 7]) -> Vec<[usize; 7]> {
    let mut v = vec![*codes];
    let mut r = *codes; r.reverse(); v.push(r);
    let mut rot = *codes; rot.rotate_left(3); v.push(rot);
    let il = [codes[0], codes[6], codes[1], codes[5], codes[2], codes[4], codes[3]]; v.push(il);
    v
}

fn witness(mode: &str, shard: usize, nsh: usize, limit: usize) {
    std::panic::set_hook(Box::new(|_| {}));
    let mut o = Oracle { t: build_tbl(), memo: std::collections::HashMap::new() };
    let mut found = 0usize;
    let mut tried: u64 = 0;
    if mode == "full" {
        // all C(52,7) hands, sorted, sharded by a running counter
        let mut idx = [0usize, 1, 2, 3, 4, 5, 6];
        let mut k: u64 = 0;
        loop {
            if (k as usize) % nsh == shard {
                for ord in orders(&idx).iter().take(2) {
                    tried += 1;
                    if try_hand(&mut o, ord, &mut found) { break; }
                }
                if found >= limit { break; }
            }
            k += 1;
            // next combination
            let mut i = 7;
            while i > 0 && idx[i - 1] == 52 - 7 + (i - 1) { i -= 1; }
            if i == 0 { break; }
            idx[i - 1] += 1;
            for j in i..7 { idx[j] = idx[j - 1] + 1; }
        }
    } else {
        // patterns: every rank vector without a flush, every flush vector with a few off-suit fillers
        let mut k: u64 = 0;
        let mut q = [0usize; 13];
        fn rec(pos: usize, rem: usize, q: &mut [usize; 13], out: &mut Vec<[usize; 13]>) {
            if pos == 13 { if rem == 0 { out.push(*q); } return; }
            for c in 0..=rem.min(4) { q[pos] = c; rec(pos + 1, rem - c, q, out); }
            q[pos] = 0;
        }
        let mut all = vec![];
        rec(0, 7, &mut q, &mut all);
        for v in all.iter() {
            k += 1;
            if (k as usize) % nsh != shard { continue; }
            // three suit assignments that avoid five of a suit where possible
            for start in 0..3usize {
                let mut codes = vec![];
                let mut s = start;
                for r in 0..13 { for _ in 0..v[r] { codes.push(r * 4 + (s % 4)); s += 1; } if v[r] > 0 && start == 2 { s += 1; } }
                let mut sc = [0; 4];
                for c in codes.iter() { sc[c % 4] += 1; }
                if sc.iter().any(|x| *x >= 5) { continue; }
                let mut ds = codes.clone(); ds.sort(); ds.dedup();
                if ds.len() != 7 { continue; }
                let arr: [usize; 7] = [codes[0], codes[1], codes[2], codes[3], codes[4], codes[5], codes[6]];
                for ord in orders(&arr) { tried += 1; if try_hand(&mut o, &ord, &mut found) { break; } }
                if found >= limit { break; }
            }
            if found >= limit { break; }
        }
        // flush vectors: 5..7 bits in each suit, fillers from the next suits
        'outer: for m in 0u32..8192 {
            let pc = m.count_ones() as usize;
            if pc < 5 || pc > 7 { continue; }
            k += 1;
            if (k as usize) % nsh != shard { continue; }
            for suit in 0..4usize {
                let base: Vec<usize> = (0..13).filter(|r| m >> (12 - r) & 1 == 1).map(|r| r * 4 + suit).collect();
                let need = 7 - pc;
                let fillers: Vec<Vec<usize>> = if need == 0 { vec![vec![]] } else if need == 1 {
                    (0..13).map(|r| vec![r * 4 + (suit + 1) % 4]).collect()
                } else {
                    let mut f = vec![];
                    for a in 0..13 { for b in 0..13 { f.push(vec![a * 4 + (suit + 1) % 4, b * 4 + (suit + 2) % 4]); if a < b { f.push(vec![a * 4 + (suit + 1) % 4, b * 4 + (suit + 1) % 4]); } } }
                    f
                };
                for f in fillers.iter() {
                    let mut codes = base.clone(); codes.extend(f.iter());
                    let arr: [usize; 7] = [codes[0], codes[1], codes[2], codes[3], codes[4], codes[5], codes[6]];
                    for ord in orders(&arr) { tried += 1; if try_hand(&mut o, &ord, &mut found) { break; } }
                    if found >= limit { break 'outer; }
                }
            }
        }
    }
    println!("WITNESS-SEARCH mode={} shard={}/{} tried={} found={}", mode, shard, nsh, tried, found);
}

fn main() {
    let args: Vec<String> = std::env::args().collect();
    if args.len() >= 2 && args[1] == "witness" {
        let mode = args.get(2).map(|s| s.as_str()).unwrap_or("patterns");
        let shard: usize = args.get(3).and_then(|s| s.parse().ok()).unwrap_or(0);
        let nsh: usize = args.get(4).and_then(|s| s.parse().ok()).unwrap_or(1);
        let limit: usize = args.get(5).and_then(|s| s.parse().ok()).unwrap_or(3);
        witness(mode, shard, nsh, limit);
        return;
    }
    if args.len() >= 9 && args[1] == "spec" {
        // eval spec c1..c7 (card codes): print the specified class and category
        let mut o = Oracle { t: build_tbl(), memo: std::collections::HashMap::new() };
        let mut codes = [0usize; 7];
        for i in 0..7 { codes[i] = args[2 + i].parse().unwrap(); }
        let w = o.class7(&codes);
        println!("SPEC class={} category={}", w, category_exec(w));
        return;
    }
    let mut fail: Vec<u8> = Vec::new();
    let (a, b) = check_all(&mut fail);
    println!("CHECKER tables_ok={} classes_ok={} fail={:?}", a, b, fail);
}
